----------------------------- MODULE MCPolling -----------------------------
(* Configurations of Polling.tla.
   Cadence (deterministic closed loop, zero request time): grid of (min, initial, max) settings x
   production patterns (steady period T at two phases; steady -> stall -> resume at another period;
   steady -> burst -> steady).  Every path is one run of MaxRounds rounds; the cadence monitors and
   the per-round clauses are invariants.
   Delay (nondeterministic): request times {0, short, long, longer than the interval} x "certificate
   arrived locally while polling" for a few rounds: progress and the delay envelope.            *)
EXTENDS PollingLoop, TLC
Big == 1000000000
Settings == {<<1000, 30000, 120000>>, <<1000, 1000, 120000>>, <<1000, 120000, 120000>>,
             <<500, 10000, 60000>>, <<2000, 5000, 20000>>, <<100, 3000, 12000>>}
Periods(s) == {T \in {s[1], s[1] + 1, 2 * s[1], s[2] \div 3, s[2] \div 2, s[2] - 1, s[2], s[2] + 1, 2 * s[2],
                      s[3] \div 2, s[3] - 1, s[3], (s[1] + s[3]) \div 2, 7777, 33333} : T >= s[1] /\ T <= s[3]}
Cfg(s, segs) == [mn |-> s[1], init |-> s[2], mx |-> s[3], segs |-> segs]
Steady(T, ph) == IF ph = 0 THEN <<[dur |-> Big, T |-> T, settle |-> TRUE]>>
                 ELSE <<[dur |-> ph, T |-> 0, settle |-> FALSE], [dur |-> Big, T |-> T, settle |-> TRUE]>>
SteadyConfigs == UNION {UNION {{Cfg(s, Steady(T, ph)) : ph \in {0, T - 1}} : T \in Periods(s)} : s \in Settings}
PatternConfigs ==
  UNION {{Cfg(s, <<[dur |-> 100 * Ts[1], T |-> Ts[1], settle |-> TRUE], [dur |-> k * s[3], T |-> 0, settle |-> FALSE],
            [dur |-> Big, T |-> Ts[2], settle |-> TRUE]>>)
     : Ts \in {<<s[2], s[1] * 3>>, <<s[1] * 2, s[3] \div 2>>, <<s[3], s[2]>>}, k \in {1, 7}} : s \in Settings} \cup
  UNION {{Cfg(s, <<[dur |-> 100 * Ts[1], T |-> Ts[1], settle |-> TRUE], [dur |-> 40 * (Ts[1] \div d), T |-> Ts[1] \div d, settle |-> FALSE],
            [dur |-> Big, T |-> Ts[2], settle |-> TRUE]>>)
     : Ts \in {<<s[2], s[1] * 3>>, <<s[3] \div 2, s[3] \div 2>>}, d \in {3, 20}} : s \in Settings}
DelayConfigs == {Cfg(s, Steady(T, 0)) : s \in {<<1000, 30000, 120000>>, <<2000, 5000, 20000>>}, T \in {5000, 30000}}
DelayReqTimes == {0, 250, 20000, 200000}
=============================================================================

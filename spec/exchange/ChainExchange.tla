--------------------------- MODULE ChainExchange ---------------------------
(* chainexchange/pubsub.go (PubSubChainExchange) as a state machine, one action per public call /
   critical section:

     Lookup(i, k)        GetChainByInstance           wanted first, then promote from discovered,
                                                      else leave a placeholder
     OwnBroadcast(i, c)  Broadcast -> cacheAsWantedChain      every prefix, longest first
     RemoteAdmit(i, c)   subscription -> cacheAsDiscoveredChain   every prefix, longest first
     Deliver(m)          validatePubSubMessage, then RemoteAdmit iff the verdict is "accept"
     Prune(n)            RemoveChainsByInstance
     SetProgress, SetClock   the environment (gpbft progress function, clock)

   A chain is a sequence of tipset ids (integers); tipset t has epoch t \div EpochDiv.  The key of a
   chain is the chain itself (ECChain.Key() is injective on tipset sequences), the zero key is <<>>.
   A cache is a sequence of <<key, value>> pairs, MOST RECENT FIRST, with the exact recency semantics
   of hashicorp/golang-lru: Get and Add move to the front, Peek / Contains / ContainsOrAdd of a present
   key do not; Add of a new key into a full cache evicts the last element.  value = <<>> is the
   placeholder of a key that was asked for but is not known yet.
   wanted, disc : instance -> cache; the domain is the set of instances for which the code has
   created a cache (lazily, on first touch) and not yet pruned it.

   Named deviations (constants; the intended design is TRUE/TRUE/FALSE/FALSE/FALSE):
     DiscoveredPeeksWanted   FALSE: cacheAsDiscoveredChain consults the discovered cache where it means
                             the wanted one (the defect repaired by fix 8ea00be)
     LookupPromotes          FALSE: a lookup that misses in wanted does not look into discovered
     StoreWholeChain         TRUE : every prefix key is filed with the whole chain as value
     PruneInclusive          TRUE : Prune(n) also removes instance n
     AcceptPast              TRUE : the validator does not ignore past instances                    *)
EXTENDS Integers, Sequences, FiniteSets, TLC

CONSTANTS EpochDiv,
          DiscoveredPeeksWanted, LookupPromotes, StoreWholeChain, PruneInclusive, AcceptPast,
          StrictAdmit    \* TRUE: demand AdmitRetrievable for every chain that fits (refuted by TLC on the as-coded design)

VARIABLES wanted, disc,     \* the two cache maps
          prog,             \* [id, input (<<>> = nil), now]  what progress() and clk.Now() return
          cfg,              \* [capW, capD, lookahead, maxAge, maxLen]  the options (fixed per history)
          admitted,         \* {<<i, k>>} keys of chains admitted (remote or own), all prefixes
          ever,             \* {<<i, k>>} keys the node itself ever wanted: passed to Lookup (non-zero) or own prefixes
          ata,              \* {<<i, k>>} solicited and available: asked for and then admitted, found by a lookup, or own
          last              \* observation of the last call (what the caller saw), see the invariants
cxvars == <<wanted, disc, prog, cfg, admitted, ever, ata, last>>

NoChain == <<>>
NoLast == [kind |-> "none"]

\* ------------------------------------------------------------------ chains
Prefixes(c) == {SubSeq(c, 1, n) : n \in 1..Len(c)}
PrefixSeqDesc(c) == [n \in 1..Len(c) |-> SubSeq(c, 1, Len(c) - n + 1)]     \* longest first (the code's loop)
EpochOf(t) == t \div EpochDiv
ValidChain(c) == /\ Len(c) <= cfg.maxLen
                 /\ \A j \in 1..Len(c) : c[j] >= 0
                 /\ \A j \in 1..(Len(c) - 1) : EpochOf(c[j]) < EpochOf(c[j + 1])

\* ------------------------------------------------------------------ one LRU cache
Keys(q) == {q[j][1] : j \in DOMAIN q}
Idx(q, k) == CHOOSE j \in DOMAIN q : q[j][1] = k
Val(q, k) == q[Idx(q, k)][2]
Remove(q, k) == IF k \in Keys(q) THEN SubSeq(q, 1, Idx(q, k) - 1) \o SubSeq(q, Idx(q, k) + 1, Len(q)) ELSE q
Trim(q, cap) == IF Len(q) > cap THEN SubSeq(q, 1, cap) ELSE q
Add(q, k, v, cap) == Trim(<<<<k, v>>>> \o Remove(q, k), cap)
Touch(q, k) == IF k \in Keys(q) THEN <<q[Idx(q, k)]>> \o Remove(q, k) ELSE q          \* Get
ContainsOrAdd(q, k, v, cap) == IF k \in Keys(q) THEN q ELSE Add(q, k, v, cap)
HasChain(q, k) == k \in Keys(q) /\ Val(q, k) # NoChain

At(f, i) == IF i \in DOMAIN f THEN f[i] ELSE <<>>
W(i) == At(wanted, i)
D(i) == At(disc, i)
Put(f, i, q) == [j \in DOMAIN f \cup {i} |-> IF j = i THEN q ELSE f[j]]
\* what a caller can get hold of under key k, given the wanted cache wq and the discovered cache dq
StoredIn(wq, dq, k) == HasChain(wq, k) \/ k \in Keys(dq)
Stored(i, k) == StoredIn(W(i), D(i), k)
KeysAt(S, i) == {p[2] : p \in {q \in S : q[1] = i}}

CxInit(c0, p0) ==
  /\ wanted = <<>> /\ disc = <<>> /\ prog = p0 /\ cfg = c0
  /\ admitted = {} /\ ever = {} /\ ata = {} /\ last = NoLast

\* ------------------------------------------------------------------ GetChainByInstance
Lookup(i, k) ==
  IF k = NoChain
  THEN /\ last' = [kind |-> "Lookup", inst |-> i, key |-> k, ret |-> NoChain, stored |-> FALSE]
       /\ UNCHANGED <<wanted, disc, prog, cfg, admitted, ever, ata>>
  ELSE
  /\ ever' = ever \cup {<<i, k>>}
  /\ IF HasChain(W(i), k)
     THEN /\ wanted' = Put(wanted, i, Touch(W(i), k)) /\ disc' = disc
          /\ ata' = ata \cup {<<i, k>>}
          /\ last' = [kind |-> "Lookup", inst |-> i, key |-> k, ret |-> Val(W(i), k), stored |-> TRUE]
     ELSE LET w1 == Touch(W(i), k) IN         \* wanted.Get touches a placeholder too
          IF LookupPromotes /\ k \in Keys(D(i))
          THEN /\ wanted' = Put(wanted, i, Add(w1, k, Val(D(i), k), cfg.capW))
               /\ disc' = Put(disc, i, Remove(D(i), k))
               /\ ata' = ata \cup {<<i, k>>}       \* asked for while held: from now on a solicited chain
               /\ last' = [kind |-> "Lookup", inst |-> i, key |-> k, ret |-> Val(D(i), k), stored |-> TRUE]
          ELSE /\ wanted' = Put(wanted, i, ContainsOrAdd(w1, k, NoChain, cfg.capW))
               /\ disc' = Put(disc, i, D(i))
               /\ ata' = ata
               /\ last' = [kind |-> "Lookup", inst |-> i, key |-> k, ret |-> NoChain, stored |-> Stored(i, k)]
  /\ UNCHANGED <<prog, cfg, admitted>>

\* ------------------------------------------------------------------ cacheAsWantedChain
RECURSIVE FileWanted(_, _, _)
FileWanted(w, ps, whole) ==
  IF ps = <<>> THEN w
  ELSE LET k == Head(ps) IN
       IF k \notin Keys(w) \/ Val(w, k) = NoChain
       THEN FileWanted(Add(w, k, IF StoreWholeChain THEN whole ELSE k, cfg.capW), Tail(ps), whole)
       ELSE FileWanted(w, Tail(ps), whole)

\* the precondition under which the property promises that all prefixes are retrievable right
\* after the call: the chain fits, and either none of its prefixes is already held with a chain in
\* the target cache (first arrival) or nothing has to be evicted at all.  (A re-filed chain can be
\* pushed out by its own prefixes because a present key is not refreshed - see the report.)
Fits(c, cap, atRisk, len, absent) ==
  /\ Len(c) <= cap
  /\ (StrictAdmit \/ atRisk = {} \/ len + Cardinality(absent) <= cap)
OwnPreOn(wq, c) == Fits(c, cfg.capW, {p \in Prefixes(c) : HasChain(wq, p)}, Len(wq),
                        {p \in Prefixes(c) : p \notin Keys(wq)})
AdmitPreOn(wq, dq, c) == Fits(c, cfg.capD, {p \in Prefixes(c) : p \notin Keys(wq) /\ p \in Keys(dq)}, Len(dq),
                              {p \in Prefixes(c) : p \notin Keys(wq) /\ p \notin Keys(dq)})
OwnPre(i, c) == OwnPreOn(W(i), c)
AdmitPre(i, c) == AdmitPreOn(W(i), D(i), c)

OwnBroadcast(i, c) ==
  /\ wanted' = Put(wanted, i, FileWanted(W(i), PrefixSeqDesc(c), c))
  /\ admitted' = admitted \cup {<<i, p>> : p \in Prefixes(c)}
  /\ ever' = ever \cup {<<i, p>> : p \in Prefixes(c)}
  /\ ata' = ata \cup {<<i, p>> : p \in Prefixes(c)}
  /\ last' = [kind |-> "Own", inst |-> i, chain |-> c, pre |-> OwnPre(i, c)]
  /\ UNCHANGED <<disc, prog, cfg>>

\* ------------------------------------------------------------------ cacheAsDiscoveredChain
RECURSIVE FileDiscovered(_, _, _, _)
FileDiscovered(w, d, ps, whole) ==
  IF ps = <<>> THEN <<w, d>>
  ELSE LET k == Head(ps)
           v == IF StoreWholeChain THEN whole ELSE k
           peekIn == IF DiscoveredPeeksWanted THEN w ELSE d
       IN IF k \notin Keys(peekIn)
          THEN FileDiscovered(w, ContainsOrAdd(d, k, v, cfg.capD), Tail(ps), whole)
          ELSE IF Val(peekIn, k) = NoChain
               THEN (IF DiscoveredPeeksWanted
                     THEN FileDiscovered(Add(w, k, v, cfg.capW), d, Tail(ps), whole)
                     ELSE FileDiscovered(w, Add(d, k, v, cfg.capD), Tail(ps), whole))
               ELSE FileDiscovered(w, d, Tail(ps), whole)

AdmitEffect(i, c) ==
  /\ LET r == FileDiscovered(W(i), D(i), PrefixSeqDesc(c), c) IN
       wanted' = Put(wanted, i, r[1]) /\ disc' = Put(disc, i, r[2])
  /\ admitted' = admitted \cup {<<i, p>> : p \in Prefixes(c)}
  /\ ata' = ata \cup {<<i, p>> : p \in Prefixes(c) \cap KeysAt(ever, i)}
  /\ UNCHANGED <<prog, cfg, ever>>

RemoteAdmit(i, c) ==
  /\ AdmitEffect(i, c)
  /\ last' = [kind |-> "Admit", inst |-> i, chain |-> c, pre |-> AdmitPre(i, c)]

\* ------------------------------------------------------------------ validatePubSubMessage
\* m = [shape, inst, chain, ts]; shape "ok" = decodable message whose tipsets are individually well
\* formed; any other shape names a malformation the abstract chain cannot express.
BaseOf(c) == c[1]
Verdict(m) ==
  IF m.shape # "ok" THEN "reject"
  ELSE IF m.chain = NoChain THEN "reject"
  ELSE IF ~ValidChain(m.chain) THEN "reject"
  ELSE IF (~AcceptPast /\ m.inst < prog.id) \/ m.inst > prog.id + cfg.lookahead THEN "ignore"
  ELSE IF prog.input # NoChain /\ m.inst = prog.id /\ BaseOf(m.chain) # BaseOf(prog.input) THEN "reject"
  ELSE IF prog.now - cfg.maxAge > m.ts \/ m.ts > prog.now THEN "ignore"
  ELSE "accept"

\* the property's own list of broadcasts that must not be admitted
Bad(m) ==
  \/ m.shape # "ok"                                        \* undecodable / malformed tipset
  \/ m.chain = NoChain                                     \* empty
  \/ ~ValidChain(m.chain)                                  \* malformed chain
  \/ m.inst < prog.id                                      \* past instance
  \/ m.inst > prog.id + cfg.lookahead                      \* too distant
  \/ m.ts > prog.now \/ m.ts < prog.now - cfg.maxAge       \* outside the timestamp window
  \/ (m.inst = prog.id /\ prog.input # NoChain /\ m.chain[1] # prog.input[1])   \* base contradicts the input

\* v is the verdict the validator returned (the design uses Verdict(m), a trace binds the observed one)
DeliverWith(m, v) ==
  IF v = "accept"
  THEN /\ AdmitEffect(m.inst, m.chain)
       /\ last' = [kind |-> "Deliver", msg |-> m, verdict |-> v, inst |-> m.inst, chain |-> m.chain,
                   pre |-> AdmitPre(m.inst, m.chain)]
  ELSE /\ last' = [kind |-> "Deliver", msg |-> m, verdict |-> v, inst |-> m.inst, chain |-> NoChain, pre |-> FALSE]
       /\ UNCHANGED <<wanted, disc, prog, cfg, admitted, ever, ata>>
Deliver(m) == DeliverWith(m, Verdict(m))

\* ------------------------------------------------------------------ RemoveChainsByInstance
Below(i, n) == IF PruneInclusive THEN i <= n ELSE i < n
Prune(n) ==
  /\ wanted' = [i \in {j \in DOMAIN wanted : ~Below(j, n)} |-> wanted[i]]
  /\ disc' = [i \in {j \in DOMAIN disc : ~Below(j, n)} |-> disc[i]]
  /\ admitted' = {p \in admitted : p[1] >= n}
  /\ ever' = {p \in ever : p[1] >= n} /\ ata' = {p \in ata : p[1] >= n}
  /\ last' = [kind |-> "Prune", n |-> n, preW |-> wanted, preD |-> disc]
  /\ UNCHANGED <<prog, cfg>>

SetProgress(id, input) ==
  /\ prog' = [prog EXCEPT !.id = id, !.input = input] /\ last' = NoLast
  /\ UNCHANGED <<wanted, disc, cfg, admitted, ever, ata>>
SetClock(now) ==
  /\ prog' = [prog EXCEPT !.now = now] /\ last' = NoLast
  /\ UNCHANGED <<wanted, disc, cfg, admitted, ever, ata>>

\* ================= the property (C18) =================
\* The clause bodies are operators over a pair of cache maps (wm, dm) so that the design check
\* instantiates them with the model's caches and the trace spec with the caches observed in the code.
RetrievableAll(wm, dm, i, c) == \A p \in Prefixes(c) : StoredIn(At(wm, i), At(dm, i), p)
Retained(wm, dm) == \A p \in ata : Cardinality(KeysAt(ever, p[1])) <= cfg.capW => StoredIn(At(wm, p[1]), At(dm, p[1]), p[2])
Restrict(f, n) == [i \in {j \in DOMAIN f : j >= n} |-> f[i]]
PrunedExactly(preW, preD, n, postW, postD) == postW = Restrict(preW, n) /\ postD = Restrict(preD, n)

\* a lookup never returns a chain whose key differs from the requested key ...
LookupKeyMatches == (last.kind = "Lookup" /\ last.ret # NoChain) => last.ret = last.key
\* ... nor one that was never admitted for that instance (incl.: nothing below a prune survives)
OnlyAdmitted == (last.kind = "Lookup" /\ last.ret # NoChain) => <<last.inst, last.ret>> \in admitted
\* "can be retrieved by key": what is held (as a chain, in either cache) is what a lookup returns
LookupFinds == (last.kind = "Lookup" /\ last.stored) => last.ret # NoChain
\* directly after an admit (remote or own) of a chain that fits, every prefix is retrievable
AdmitRetrievable == (last.kind \in {"Admit", "Own", "Deliver"} /\ last.pre) => RetrievableAll(wanted, disc, last.inst, last.chain)
\* asked for and then admitted (or own) => retained, however many unsolicited chains follow,
\* as long as the node itself never wanted more than capW keys at that instance
WantedRetained == Retained(wanted, disc)
\* what is not admitted
VerdictSound == last.kind = "Deliver" => (last.verdict = "accept" => ~Bad(last.msg))
VerdictExact == last.kind = "Deliver" => (last.verdict = "accept" <=> ~Bad(last.msg))
\* prune removes exactly the instances below
PruneExact == last.kind = "Prune" => PrunedExactly(last.preW, last.preD, last.n, wanted, disc)
\* sanity of the model itself
CapacityRespected == /\ \A i \in DOMAIN wanted : Len(wanted[i]) <= cfg.capW
                     /\ \A i \in DOMAIN disc : Len(disc[i]) <= cfg.capD
=============================================================================

------------------------- MODULE MCCertExchangeConc -------------------------
(* Design check of CertExchange.tla's step-wise request (StepHeader / StepTable / StepBound / one
   StepReadCert per datastore read) on a store that advances concurrently: between ANY two steps of
   the request a certstore.Put may write its certificate (PutWrite) and advance the Latest() pointer
   (PutCommit), up to MaxPuts times.  Initial states: every store of <= MaxCerts certificates (first
   instance in Firsts) x every request with first in 0..pending+2, limit in Limits, pt.  TLC visits every
   interleaving; the clauses of C16 are invariants of the finished request (ok response):

       every served instance < the advertised pending instance, <= limit certificates, the stored encodings
       in order from `first`, the power table of `first` iff requested and first <= advertised pending.

   InvInterleavingIrrelevant is the lemma the trace spec uses: the response is ServeAt(final store, r, p)
   for the header value p, and p lies between the store's pending instance at the start and at the end.
   Dev # "none" are the named deviations of the range bound; the check requires a counterexample for each. *)
EXTENDS CertExchange, TLC
CONSTANTS MaxCerts, Firsts, Huge, MaxPuts, Dev
VARIABLES cs, q, p0
vars == <<cs, q, p0>>

Mk(F, n) == [first |-> F, certs |-> [i \in 1..n |-> 1000 + F + i - 1], tables |-> [i \in 1..(n + 1) |-> 2000 + F + i - 1]]
Stores == {Mk(F, n) : F \in Firsts, n \in 0..MaxCerts}
Limits == {0, 1, 2, Cap, Huge}
ReqFirsts(s) == 0..(Pending(s) + 2)

Init == /\ \E s \in Stores : cs = AsConc(s)
        /\ \E f \in ReqFirsts(Visible(cs)), l \in Limits, p \in BOOLEAN : q = ReqStart([first |-> f, limit |-> l, pt |-> p])
        /\ p0 = PendingLo(cs)
NPut == Len(cs.certs)
PutW == /\ PutWriteEnabled(cs) /\ NPut < MaxCerts + MaxPuts /\ q.pc # "done"
        /\ LET full == Mk(cs.first, NPut + 1) IN cs' = PutWrite(cs, full.certs[NPut + 1], full.tables[NPut + 2])
        /\ UNCHANGED <<q, p0>>
PutC == /\ ~PutWriteEnabled(cs) /\ cs' = PutCommit(cs) /\ UNCHANGED <<q, p0>>
Step == /\ q.pc # "done" /\ q' = StepReq(cs, q, Dev) /\ UNCHANGED <<cs, p0>>
Next == PutW \/ PutC \/ Step
Spec == Init /\ [][Next]_vars
\* a Put that began while the request was in flight may finish after it (keeps the state graph free of
\* half-written terminal stores; irrelevant for the invariants)

Done == q.pc = "done" /\ q.ok
O == RespOf(q)
InvBelowPending == Done => BelowPending(O)
InvAtMostLimit == Done => AtMostLimit(q.r, O) /\ Len(O.certs) <= Cap
InvExactSlice == Done => ExactSlice(Visible(cs), q.r, O)
InvPowerTable == Done => PowerTableOK(Visible(cs), q.r, O)
InvInterleavingIrrelevant == q.pc = "done" =>
   /\ p0 <= q.pending /\ (q.ok => q.pending <= PendingHi(cs))
   /\ LET m == ServeAt(Visible(cs), q.r, q.pending) IN
        /\ m.ok = q.ok
        /\ q.ok => (m.certs = q.certs /\ m.table = q.table)
=============================================================================

------------------------------- MODULE Poller -------------------------------
(* The polling node (property C16, second half): certexchange/polling/poller.go Poll.
   State of the poller: `next` (NextInstance; its power table is the one of the honest chain at
   `next`, because it only ever advances by certificates that validate against its own table).
   One Poll(peer) is a loop of requests (first = next, limit = ReqLimit, no power table); the
   responder answers request number k with

        [mode |-> "ok" | "reset", pend |-> advertised pending instance, items |-> <<item>>]

   item = [kind, inst, enc]; kind is the responder behaviour that produced it:
        V  valid certificate for the instance the poller expects at that point
        S  valid but stale (an honest certificate older than the requested instance)
        D  duplicate of the previous honest certificate
        G  gap (honest certificate one instance too far)
        F  expected instance, forged signature
        W  expected instance, correctly signed, wrong power-table delta
        O  expected instance, encoding larger than the client's size limit
        T  stream truncated in the middle of this certificate
        R  expected instance, signed by the committee the latest power-table change retired (see below)
   Validity against the poller's own table is a fact about kinds (only V validates), decodability
   too (O and T do not decode); sequencing is decided from the instance numbers actually sent.

   Result of a Poll: [status, next, stored, reqs, recv].                                          *)
EXTENDS CertExchange
CONSTANTS ReqLimit,        \* polling.maxRequestLength = 256
          ValidateFirst    \* named deviation (design-check mutant): FALSE = store before validating

Kinds == {"V", "S", "D", "G", "F", "W", "O", "T"}
Valid(it) == it.kind = "V"
Dec(it) == it.kind \notin {"O", "T"}
WithDec(items) == [i \in DOMAIN items |-> [kind |-> items[i].kind, inst |-> items[i].inst, enc |-> items[i].enc, dec |-> Dec(items[i])]]

\* how a responder behaviour becomes concrete relative to the request (same rule in the Go driver)
RECURSIVE ItemsRec(_, _, _)
ItemsRec(first, exp, kinds) ==
  IF kinds = <<>> THEN <<>>
  ELSE LET k == Head(kinds)
           inst == CASE k = "V" -> exp [] k = "S" -> first - 1 [] k = "D" -> exp - 1 [] k = "G" -> exp + 1 [] OTHER -> exp
       IN <<[kind |-> k, inst |-> inst, enc |-> <<k, inst>>]>> \o ItemsRec(first, IF k = "V" THEN exp + 1 ELSE exp, Tail(kinds))
Concretise(first, ar) ==
  IF ar.mode = "reset" THEN [mode |-> "reset", pend |-> 0, items |-> <<>>]
  ELSE [mode |-> "ok", pend |-> Max(0, first + ar.po), items |-> ItemsRec(first, first, ar.kinds)]

\* responder `sc`:  type "abstract" (resps of [mode, po, kinds], concretised per request),
\*                  type "concrete" (resps as recorded from the scripted stream handler),
\*                  type "honest"   (a real Server whose store holds base .. pend-1 with encodings encs)
NoResp == [mode |-> "reset", pend |-> 0, items |-> <<>>]
Resp(sc, k, first) ==
  CASE sc.type = "abstract" -> IF k <= Len(sc.resps) THEN Concretise(first, sc.resps[k]) ELSE NoResp
    [] sc.type = "concrete" -> IF k <= Len(sc.resps) THEN sc.resps[k] ELSE NoResp
    [] sc.type = "honest" ->
         [mode |-> "ok", pend |-> sc.pend,
          items |-> [i \in 1..Min(Min(ReqLimit, Cap), Max(sc.pend - first, 0)) |->
                       [kind |-> "V", inst |-> first + i - 1, enc |-> sc.encs[first + i - sc.base]]]]

\* ---------------------------------------------------------------- the node: poller + its own certificate store
(* The node's own store also advances without the poller (its own consensus finalizes instances, another
   channel delivers certificates); Poll starts every request with CatchUp (poller.go), which moves NextInstance
   to the store's pending instance and must re-load the power table OF THAT INSTANCE.

     n = [next, lag, S]
        S     encodings in the node's own store, instance i at S[i+1]
        next  Poller.NextInstance
        lag   by how many power-table changes Poller.PowerTable is behind the table of `next` according to the
              node's own store: 0 = it IS the table of NextInstance.  The code keeps it 0; only the named
              deviations below make it positive.  Forged = whatever table a forged certificate left behind.
     env = [dev, delta]   delta[i+1] = TRUE iff the honest certificate of instance i changes the power table
                          (read only by the deviations); dev:
        "none"       CatchUp loads the table of the new NextInstance                          (the code)
        "lastdelta"  ... only if the latest stored certificate carries a delta
        "nextplus1"  ... the table of (old NextInstance + 1)
        "applylast"  ... its current table + the delta of the latest stored certificate only
   Responder behaviour R: expected instance, signed with the keys of the committee RETIRED by the latest power
   table change (valid against a table that is exactly one change behind, never against the table of `next`). *)
Forged == -1
NoEnv == [dev |-> "none", delta |-> <<>>]
Changes(env, a, b) == Cardinality({i \in a..b : env.delta[i + 1]})      \* table changes made by certificates a..b
LagAfterCatchUp(n, own, env) ==
  CASE env.dev = "none" -> 0
    [] env.dev = "lastdelta" -> IF env.delta[own] THEN 0 ELSE IF n.lag < 0 THEN n.lag ELSE n.lag + Changes(env, n.next, own - 1)
    [] env.dev = "nextplus1" -> Changes(env, n.next + 1, own - 1)
    [] env.dev = "applylast" -> IF n.lag < 0 THEN n.lag ELSE n.lag + Changes(env, n.next, own - 2)
CatchUpN(n, env) == LET own == Len(n.S) IN
  IF own = 0 \/ own = n.next THEN n ELSE [n EXCEPT !.next = own, !.lag = LagAfterCatchUp(n, own, env)]
LocalAdvanceN(n, encs) == [n EXCEPT !.S = @ \o encs]

\* length of the prefix of `acc` that validates, one certificate after the other, against the poller's table
ValidRun(acc, lag) ==
  IF lag = 0 THEN LET bad == {i \in DOMAIN acc : ~Valid(acc[i])}
                  IN IF bad = {} THEN Len(acc) ELSE (CHOOSE i \in bad : \A j \in bad : i <= j) - 1
  ELSE IF lag = 1 /\ Len(acc) >= 1 /\ acc[1].kind = "R" THEN 1 ELSE 0

\* p = n plus the running result [status, recv, newc, reqs]; la[k] = encodings the node's own consensus stores while
\* request k is in flight (after the responder received it, before the response is processed)
RECURSIVE PollLoopN(_, _, _, _, _)
PollLoopN(sc, la, env, k, p) ==
  LET c == CatchUpN(p, env)
      first == c.next
      reqs2 == Append(c.reqs, first)
      r == Resp(sc, k, first)
      S1 == c.S \o (IF k <= Len(la) THEN la[k] ELSE <<>>)
  IN IF r.mode = "reset" THEN [c EXCEPT !.status = "Failed", !.reqs = reqs2, !.S = S1]
     ELSE
       LET status1 == IF r.pend >= first THEN "Hit" ELSE c.status
           acc == ClientAccept([first |-> first, limit |-> ReqLimit], WithDec(r.items))
           nv == ValidRun(acc, c.lag)
           illegal == nv < Len(acc)
           kept == IF illegal /\ ~ValidateFirst THEN nv + 1 ELSE nv
           \* certificates the store does not have yet are Put: instances Len(S1) .. first+kept-1
           S2 == S1 \o [j \in 1..Max(0, first + kept - Len(S1)) |-> acc[Len(S1) - first + j].enc]
           p2 == [c EXCEPT !.next = first + nv,
                           !.lag = IF c.lag = 0 \/ nv = 0 THEN c.lag ELSE Forged,
                           !.status = status1, !.recv = c.recv + nv, !.newc = c.newc + Max(0, first + nv - Len(S1)),
                           !.S = S2, !.reqs = reqs2]
       IN IF illegal THEN [p2 EXCEPT !.status = "Illegal"]
          ELSE IF r.pend <= p2.next THEN p2
          ELSE IF p2.recv = 0 THEN [p2 EXCEPT !.status = "Failed"]
          ELSE PollLoopN(sc, la, env, k + 1, p2)

PollN(n, sc, la, env) == PollLoopN(sc, la, env, 1, [next |-> n.next, lag |-> n.lag, S |-> n.S,
                                                     status |-> "Miss", recv |-> 0, newc |-> 0, reqs |-> <<>>])

\* one Poll of a poller that is in step with its store (no local advance): the node's store holds next0 certificates
Poll(next0, sc) ==
  LET res == PollN([next |-> next0, lag |-> 0, S |-> [i \in 1..next0 |-> <<"pre", i>>]], sc, <<>>, NoEnv)
  IN [next |-> res.next, status |-> res.status, recv |-> res.recv, newc |-> res.newc, reqs |-> res.reqs,
      stored |-> SubSeq(res.S, next0 + 1, Len(res.S))]

\* ---------------------------------------------------------------- clauses of C16 (poller half)
\* for an observation o = [status, next1, stored (encodings now in the store at next0 ..)] of Poll(next0, sc)
ValidEncs(sc, m) == {m.stored[i] : i \in DOMAIN m.stored}
StoresOnlyValid(m, o) == \A i \in DOMAIN o.stored : i <= Len(m.stored) /\ o.stored[i] = m.stored[i]
AdvancesByPrefix(next0, m, o) == o.next1 = m.next /\ o.next1 = next0 + Len(m.stored) /\ Len(o.stored) = Len(m.stored)
\* the same two clauses for a node whose own store advances as well: o.stored / m.S are the whole store
StoresOnlyValidN(m, o) == \A i \in DOMAIN o.stored : i <= Len(m.S) /\ o.stored[i] = m.S[i]
AdvancesByPrefixN(m, o) == o.next1 = m.next /\ Len(o.stored) = Len(m.S)
StatusIllegalIff(m, o) == (o.status = "Illegal") <=> (m.status = "Illegal")
=============================================================================

------------------------------- MODULE Poller -------------------------------
(* The polling node (property C16, second half): certexchange/polling/poller.go Poll.
   State of the poller: `next` (NextInstance; its power table is the one of the honest chain at
   `next`, because it only ever advances by certificates that validate against its own table).
   One Poll(peer) is a loop of requests (first = next, limit = ReqLimit, no power table); the
   responder answers request number k with

        [mode |-> "ok" | "reset", pend |-> advertised pending instance, items |-> <<item>>]

   item = [kind, inst, enc]; kind is the responder behaviour that produced it:
        V  valid certificate for the instance the poller expects at that point
        S  valid but stale (an honest certificate older than the requested instance)
        D  duplicate of the previous honest certificate
        G  gap (honest certificate one instance too far)
        F  expected instance, forged signature
        W  expected instance, correctly signed, wrong power-table delta
        O  expected instance, encoding larger than the client's size limit
        T  stream truncated in the middle of this certificate
   Validity against the poller's own table is a fact about kinds (only V validates), decodability
   too (O and T do not decode); sequencing is decided from the instance numbers actually sent.

   Result of a Poll: [status, next, stored, reqs, recv].                                          *)
EXTENDS CertExchange
CONSTANTS ReqLimit,        \* polling.maxRequestLength = 256
          ValidateFirst    \* named deviation (design-check mutant): FALSE = store before validating

Kinds == {"V", "S", "D", "G", "F", "W", "O", "T"}
Valid(it) == it.kind = "V"
Dec(it) == it.kind \notin {"O", "T"}
WithDec(items) == [i \in DOMAIN items |-> [kind |-> items[i].kind, inst |-> items[i].inst, enc |-> items[i].enc, dec |-> Dec(items[i])]]

\* how a responder behaviour becomes concrete relative to the request (same rule in the Go driver)
RECURSIVE ItemsRec(_, _, _)
ItemsRec(first, exp, kinds) ==
  IF kinds = <<>> THEN <<>>
  ELSE LET k == Head(kinds)
           inst == CASE k = "V" -> exp [] k = "S" -> first - 1 [] k = "D" -> exp - 1 [] k = "G" -> exp + 1 [] OTHER -> exp
       IN <<[kind |-> k, inst |-> inst, enc |-> <<k, inst>>]>> \o ItemsRec(first, IF k = "V" THEN exp + 1 ELSE exp, Tail(kinds))
Concretise(first, ar) ==
  IF ar.mode = "reset" THEN [mode |-> "reset", pend |-> 0, items |-> <<>>]
  ELSE [mode |-> "ok", pend |-> Max(0, first + ar.po), items |-> ItemsRec(first, first, ar.kinds)]

\* responder `sc`:  type "abstract" (resps of [mode, po, kinds], concretised per request),
\*                  type "concrete" (resps as recorded from the scripted stream handler),
\*                  type "honest"   (a real Server whose store holds base .. pend-1 with encodings encs)
NoResp == [mode |-> "reset", pend |-> 0, items |-> <<>>]
Resp(sc, k, first) ==
  CASE sc.type = "abstract" -> IF k <= Len(sc.resps) THEN Concretise(first, sc.resps[k]) ELSE NoResp
    [] sc.type = "concrete" -> IF k <= Len(sc.resps) THEN sc.resps[k] ELSE NoResp
    [] sc.type = "honest" ->
         [mode |-> "ok", pend |-> sc.pend,
          items |-> [i \in 1..Min(Min(ReqLimit, Cap), Max(sc.pend - first, 0)) |->
                       [kind |-> "V", inst |-> first + i - 1, enc |-> sc.encs[first + i - sc.base]]]]

RECURSIVE PollLoop(_, _, _)
PollLoop(sc, k, p) ==
  LET first == p.next
      reqs2 == Append(p.reqs, first)
      r == Resp(sc, k, first)
  IN IF r.mode = "reset" THEN [p EXCEPT !.status = "Failed", !.reqs = reqs2]
     ELSE
       LET status1 == IF r.pend >= first THEN "Hit" ELSE p.status
           acc == ClientAccept([first |-> first, limit |-> ReqLimit], WithDec(r.items))
           bad == {i \in DOMAIN acc : ~Valid(acc[i])}
           nv == IF bad = {} THEN Len(acc) ELSE (CHOOSE i \in bad : \A j \in bad : i <= j) - 1
           illegal == nv < Len(acc)
           kept == IF illegal /\ ~ValidateFirst THEN nv + 1 ELSE nv
           p2 == [next |-> first + nv, status |-> status1, recv |-> p.recv + nv,
                  stored |-> p.stored \o [i \in 1..kept |-> acc[i].enc], reqs |-> reqs2]
       IN IF illegal THEN [p2 EXCEPT !.status = "Illegal"]
          ELSE IF r.pend <= p2.next THEN p2
          ELSE IF p2.recv = 0 THEN [p2 EXCEPT !.status = "Failed"]
          ELSE PollLoop(sc, k + 1, p2)

Poll(next0, sc) == PollLoop(sc, 1, [next |-> next0, status |-> "Miss", recv |-> 0, stored |-> <<>>, reqs |-> <<>>])

\* ---------------------------------------------------------------- clauses of C16 (poller half)
\* for an observation o = [status, next1, stored (encodings now in the store at next0 ..)] of Poll(next0, sc)
ValidEncs(sc, m) == {m.stored[i] : i \in DOMAIN m.stored}
StoresOnlyValid(m, o) == \A i \in DOMAIN o.stored : i <= Len(m.stored) /\ o.stored[i] = m.stored[i]
AdvancesByPrefix(next0, m, o) == o.next1 = next0 + Len(m.stored) /\ Len(o.stored) = Len(m.stored)
StatusIllegalIff(m, o) == (o.status = "Illegal") <=> (m.status = "Illegal")
=============================================================================

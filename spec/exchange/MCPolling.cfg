SPECIFICATION Spec
CONSTANTS
  OffsetMax = FALSE
  SettleN = 64
  SettleW = 136
  Configs <- SteadyConfigs
  ReqTimes = {0}
  LocalDuring = {FALSE}
  MaxRounds = 200
INVARIANTS InvProgressExact InvDelayEnvelope InvSettles InvShrinks InvBacksOff InvBounded
CHECK_DEADLOCK FALSE

SPECIFICATION TSpec
CONSTANTS
  Cap = 256
  NoTable = ""
  InclusiveEnd = FALSE
  ReqLimit = 256
  ValidateFirst = TRUE
  TraceFile = "trace.ndjson"
CHECK_DEADLOCK FALSE

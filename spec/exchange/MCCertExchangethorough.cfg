SPECIFICATION Spec
CONSTANTS
  Cap = 3
  NoTable = 0
  InclusiveEnd = FALSE
  MaxCerts = 10
  Firsts = {0, 3, 7}
  Huge = 1073741824
INVARIANTS InvAtMostLimit InvBelowPending InvExactSlice InvPowerTable InvClientHonest InvMaximal
CHECK_DEADLOCK FALSE

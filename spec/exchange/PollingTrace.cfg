SPECIFICATION TSpec
CONSTANTS
  OffsetMax = FALSE
  SettleN = 64
  SettleW = 136
  TraceFile = "trace.ndjson"
CHECK_DEADLOCK FALSE

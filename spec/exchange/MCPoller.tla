----------------------------- MODULE MCPoller -----------------------------
(* Exhaustive configuration of Poller.tla: one Poll of a poller at instance Next0 against every
   responder script of <= 2 responses: the first any sequence of <= L1 items (<= L1b when a second response follows) over the eight
   behaviours with any advertised pending instance (0, one behind, equal, 1/2/5 ahead) or a
   reset stream, the second (only reached when the first made the poller ask again) any
   sequence of <= L2 items.  Each script is one initial state.  With Emit the scripts are
   printed as JSON and played by the scripted stream handler of harness/drivers/certexchange
   to the real polling.Poller.                                                               *)
EXTENDS Poller, TLC, Json
CONSTANTS Next0, L1, L1b, L2
POs == {-100, -1, 0, 1, 2, 5}   \* advertised pending instance relative to the requested one (-100: zero)
VARIABLES sc
vars == <<sc>>

SeqsUpTo(n) == UNION {[1..m -> Kinds] : m \in 0..n}
AResps(n) == {[mode |-> "ok", po |-> po, kinds |-> ks] : po \in POs, ks \in SeqsUpTo(n)} \cup {[mode |-> "reset", po |-> 0, kinds |-> <<>>]}
\* a second response matters only if the first one leaves the poller asking again: pending ahead, no reset
Continues(a) == a.mode = "ok" /\ a.po > 0
Scripts == {<<a>> : a \in AResps(L1)} \cup
           {<<a, b>> : a \in {x \in AResps(L1b) : Continues(x)}, b \in AResps(L2)}

Init == sc \in {[type |-> "abstract", resps |-> s] : s \in Scripts}
Next == UNCHANGED vars
Spec == Init /\ [][Next]_vars

Res == Poll(Next0, sc)
\* everything stored is a certificate that validates against the poller's own table, at its place
InvStoredOnlyValid == \A i \in DOMAIN Res.stored : Res.stored[i] = <<"V", Next0 + i - 1>>
InvAdvancesByPrefix == Res.next = Next0 + Len(Res.stored) /\ Res.recv = Len(Res.stored)
InvRequests == /\ Len(Res.reqs) <= Len(sc.resps) + 1
               /\ \A i \in DOMAIN Res.reqs : Res.reqs[i] >= Next0 /\ (i > 1 => Res.reqs[i] >= Res.reqs[i - 1])
FirstItems == Concretise(Next0, sc.resps[1]).items
InvStatus == /\ Res.status = "Illegal" => \E k \in DOMAIN sc.resps : \E i \in DOMAIN sc.resps[k].kinds : sc.resps[k].kinds[i] \in {"F", "W"}
             /\ sc.resps[1].mode = "reset" => Res.status = "Failed"
             /\ (Len(sc.resps) = 1 /\ sc.resps[1].mode = "ok" /\ Res.status = "Miss") => sc.resps[1].po < 0
             /\ (Len(sc.resps) = 1 /\ sc.resps[1].mode = "ok" /\ sc.resps[1].kinds = <<>> /\ sc.resps[1].po > 0) => Res.status = "Failed"
Emit == PrintT(ToJson([resps |-> sc.resps]))
=============================================================================

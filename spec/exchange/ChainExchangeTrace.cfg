SPECIFICATION TSpec
CONSTANTS
  EpochDiv = 4
  DiscoveredPeeksWanted = TRUE
  LookupPromotes = TRUE
  StoreWholeChain = FALSE
  PruneInclusive = FALSE
  AcceptPast = FALSE
  StrictAdmit = FALSE
  TraceFile = "trace.ndjson"
CHECK_DEADLOCK FALSE

------------------------- MODULE MCCertExchange -------------------------
(* Exhaustive configuration of CertExchange.tla: every store of <= MaxCerts certificates (first
   instance in Firsts) x first in {0 .. pending+1, Huge} x limit in {0,1,2,Cap,Cap+1,Huge} x pt.
   Each (store, request) pair is one initial state; the clauses of C16 are invariants of the
   response the spec prescribes.  With Emit the same space is printed as JSON and executed
   by harness/drivers/certexchange against the real Server / Client.                          *)
EXTENDS CertExchange, TLC, Json
CONSTANTS MaxCerts, Firsts, Huge
VARIABLES st, rq
vars == <<st, rq>>

Stores == {[first |-> F, certs |-> [i \in 1..n |-> 1000 + F + i - 1], tables |-> [i \in 1..(n + 1) |-> 2000 + F + i - 1]]
            : F \in Firsts, n \in 0..MaxCerts}
Limits == {0, 1, 2, Cap, Cap + 1, Huge}
ReqFirsts(s) == (0..(Pending(s) + 1)) \cup {Huge}

Init == /\ st \in Stores
        /\ rq \in {[first |-> f, limit |-> l, pt |-> p] : f \in ReqFirsts(st), l \in Limits, p \in BOOLEAN}
Next == UNCHANGED vars
Spec == Init /\ [][Next]_vars

Resp == LET o == Serve(st, rq) IN
        [ok |-> o.ok, pending |-> o.pending, table |-> o.table, certs |-> o.certs,
         insts |-> [i \in DOMAIN o.certs |-> rq.first + i - 1]]
InvAtMostLimit == Resp.ok => AtMostLimit(rq, Resp) /\ Len(Resp.certs) <= Cap
InvBelowPending == Resp.ok => BelowPending(Resp)
InvExactSlice == Resp.ok => ExactSlice(st, rq, Resp)
InvPowerTable == Resp.ok => PowerTableOK(st, rq, Resp)
\* the honest response passes the client unchanged
InvClientHonest == Resp.ok =>
   LET sent == [i \in DOMAIN Resp.certs |-> [inst |-> Resp.insts[i], dec |-> TRUE, enc |-> Resp.certs[i]]]
   IN Len(ClientAccept(rq, sent)) = Len(sent)
\* maximality where the store has the certificates
InvMaximal == (Resp.ok /\ HasCert(st, rq.first)) => Len(Resp.certs) = Min(Min(rq.limit, Cap), Pending(st) - rq.first)
Emit == PrintT(ToJson([F |-> st.first, n |-> NCerts(st), first |-> rq.first, limit |-> rq.limit, pt |-> rq.pt]))
=============================================================================

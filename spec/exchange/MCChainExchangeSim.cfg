SPECIFICATION MCSpec
CONSTANTS
  EpochDiv = 1
  DiscoveredPeeksWanted = TRUE
  LookupPromotes = TRUE
  StoreWholeChain = FALSE
  PruneInclusive = FALSE
  AcceptPast = FALSE
  StrictAdmit = FALSE
  Insts = {0, 1, 2}
  PruneAt = {0, 1, 2, 3}
  ChainsC <- ChainsSim
  MsgChains <- MsgChainsSim
  CapW = 2
  CapD = 3
  Lookahead = 1
  MaxAge = 1
  Times = {0, 1, 2, 3}
  ProgIds = {0, 1, 2}
  HistOn = TRUE
  HistLen = 30
INVARIANTS WantedRetained CapacityRespected HistDone
PROPERTIES A_LookupKeyMatches A_LookupFinds A_OnlyAdmitted A_AdmitRetrievable A_PruneExact A_VerdictSound A_VerdictExact
CHECK_DEADLOCK FALSE

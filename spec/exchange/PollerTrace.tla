---------------------------- MODULE PollerTrace ----------------------------
(* Trace validation of the real polling.Poller against Poller.tla.  One NDJSON line per Poll
   (driver: harness/drivers/certexchange TestPoller):
     Reset   a fresh poller over a fresh store (next instance logged)
     Poll    type "concrete": the scripted responder played the logged responses (behaviour, instance
             number and content hash of every item it wrote, advertised pending instance);
             type "honest": a real Server whose store holds base .. pend-1 (hashes in encs).
             Observed: status, NextInstance before/after, store before/after, the content hashes
             of the certificates now in the poller's store from the old NextInstance on, and the
             requests the responder received.
   The model result m = Poll(next0, responder) is computed from the logged responder only.
   Histories in which the node's OWN store advances as well (driver: TestPollerLA) use
     ResetLA       a fresh node: its store (all encodings) and a fresh poller
     LocalAdvance  the node's own consensus stored the next certificates of the honest chain (encodings logged)
     CatchUp       the public Poller.CatchUp was called
     PollLA        like Poll; `la` = the encodings the node stored locally while request k was in flight (the
                   responder does it on receiving the request); observed: the whole store afterwards
   and are checked against Poller!CatchUpN / PollN with the model node n = [next, lag = 0, S].  ptab / stab are
   content hashes of Poller.PowerTable and of the table the node's own store gives for NextInstance.            *)
EXTENDS Poller, Json, TLC, TLCExt
CONSTANT TraceFile
VARIABLES l, next, obs, bad, node
tvars == <<l, next, obs, bad, node>>

TraceLog == ndJsonDeserialize(TraceFile)
Ev == TraceLog[l]
NoObs == [kind |-> "none"]
IsEvent(e) == l <= Len(TraceLog) /\ TraceLog[l].ev = e /\ l' = l + 1

NoNode == [next |-> 0, lag |-> 0, S |-> <<>>]
TInit == l = 1 /\ next = 0 /\ obs = NoObs /\ bad = {} /\ node = NoNode
TrReset == IsEvent("Reset") /\ next' = Ev.next /\ obs' = NoObs /\ UNCHANGED node
Responder == IF Ev.type = "honest" THEN [type |-> "honest", pend |-> Ev.pend, base |-> Ev.base, encs |-> Ev.encs]
             ELSE [type |-> "concrete", resps |-> Ev.resps]
TrPoll == /\ IsEvent("Poll") /\ UNCHANGED node
          /\ next' = Ev.next1
          /\ obs' = [kind |-> "Poll", type |-> Ev.type, sync |-> (Ev.next0 = next /\ Ev.latest0 = next),
                     m |-> Poll(Ev.next0, Responder),
                     o |-> [status |-> Ev.status, next0 |-> Ev.next0, next1 |-> Ev.next1, latest1 |-> Ev.latest1,
                            stored |-> Ev.stored, reqs |-> Ev.reqs, recv |-> Ev.recv, newc |-> Ev.newc, interr |-> Ev.interr]]
\* ---- the node across local store advances
InSync(nx, st) == nx = node.next /\ st = node.S
TrResetLA == /\ IsEvent("ResetLA") /\ UNCHANGED next
             /\ node' = [next |-> Ev.next, lag |-> 0, S |-> Ev.store]
             /\ obs' = [kind |-> "ResetLA", tab |-> (Ev.ptab = Ev.stab)]
TrLocalAdvance == /\ IsEvent("LocalAdvance") /\ UNCHANGED next
                  /\ node' = LocalAdvanceN(node, Ev.encs)
                  /\ obs' = [kind |-> "LocalAdvance", sync |-> (~Ev.err /\ Ev.own1 = Len(node.S) + Len(Ev.encs) /\ Ev.next = node.next)]
TrCatchUp == /\ IsEvent("CatchUp") /\ UNCHANGED next
             /\ LET m == CatchUpN(node, NoEnv) IN
                  /\ obs' = [kind |-> "CatchUp", sync |-> InSync(Ev.next0, Ev.store0), tab |-> (Ev.ptab = Ev.stab),
                             ok |-> (~Ev.interr /\ Ev.next1 = m.next /\ Ev.progress = m.next - node.next)]
                  /\ node' = [m EXCEPT !.next = Ev.next1]
TrPollLA == /\ IsEvent("PollLA") /\ UNCHANGED next
            /\ node' = [next |-> Ev.next1, lag |-> 0, S |-> Ev.store1]
            /\ obs' = [kind |-> "PollLA", type |-> Ev.type, sync |-> InSync(Ev.next0, Ev.store0), tab |-> (Ev.interr \/ Ev.ptab = Ev.stab),
                       m |-> PollN(node, Responder, Ev.la, NoEnv),
                       o |-> [status |-> Ev.status, next0 |-> Ev.next0, next1 |-> Ev.next1, stored |-> Ev.store1,
                              reqs |-> Ev.reqs, recv |-> Ev.recv, newc |-> Ev.newc, interr |-> Ev.interr]]
TNext == TrReset \/ TrPoll \/ TrResetLA \/ TrLocalAdvance \/ TrCatchUp \/ TrPollLA

\* ------------------------------------------------------------------ property monitors (C16)
Polled == obs.kind = "Poll"
PolledLA == obs.kind = "PollLA"
C16_PollerStoresOnlyValid == /\ Polled => StoresOnlyValid(obs.m, obs.o)
                             /\ PolledLA => StoresOnlyValidN(obs.m, obs.o)
C16_PollerAdvancesByPrefix == /\ Polled => AdvancesByPrefix(obs.o.next0, obs.m, obs.o) /\ obs.o.latest1 = obs.o.next1
                              /\ PolledLA => AdvancesByPrefixN(obs.m, obs.o)
C16_PollerStatus == (Polled \/ PolledLA) => StatusIllegalIff(obs.m, obs.o)
\* ------------------------------------------------------------------ conformance
Conf_PollerSync == obs.kind \in {"Poll", "PollLA", "CatchUp", "LocalAdvance"} => obs.sync
\* the poller's table is the table of NextInstance (internal state: a stale table is judged by the C16_ clauses
\* of the polls that use it, here it is only "the code no longer behaves like the spec")
Conf_PollerTable == obs.kind \in {"ResetLA", "CatchUp", "PollLA"} => obs.tab
Conf_CatchUp == obs.kind = "CatchUp" => obs.ok
Conf_PollerStatus == (Polled \/ PolledLA) => obs.o.status = obs.m.status /\ ~obs.o.interr /\ obs.o.recv = obs.m.recv /\ obs.o.newc = obs.m.newc
Conf_PollerRequests == ((Polled \/ PolledLA) /\ obs.type = "concrete") =>
                          /\ [i \in DOMAIN obs.o.reqs |-> obs.o.reqs[i].first] = obs.m.reqs
                          /\ \A i \in DOMAIN obs.o.reqs : obs.o.reqs[i].limit = ReqLimit /\ ~obs.o.reqs[i].pt

Clauses == {"C16_PollerStoresOnlyValid", "C16_PollerAdvancesByPrefix", "C16_PollerStatus",
            "Conf_PollerSync", "Conf_PollerStatus", "Conf_PollerRequests", "Conf_PollerTable", "Conf_CatchUp"}
Holds(c) == CASE c = "C16_PollerStoresOnlyValid" -> C16_PollerStoresOnlyValid
              [] c = "C16_PollerAdvancesByPrefix" -> C16_PollerAdvancesByPrefix
              [] c = "C16_PollerStatus" -> C16_PollerStatus
              [] c = "Conf_PollerSync" -> Conf_PollerSync [] c = "Conf_PollerStatus" -> Conf_PollerStatus
              [] c = "Conf_PollerRequests" -> Conf_PollerRequests
              [] c = "Conf_PollerTable" -> Conf_PollerTable [] c = "Conf_CatchUp" -> Conf_CatchUp
TStep == /\ TNext
         /\ LET nb == {c \in Clauses : ~(Holds(c))'} IN
              /\ bad' = bad \cup {<<l, c>> : c \in nb}
              /\ (nb = {} \/ Cardinality(bad) > 2000 \/ PrintT(<<"VERIF_BAD", l, nb>>))
TSpec == TInit /\ [][TStep]_tvars
=============================================================================

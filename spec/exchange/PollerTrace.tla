---------------------------- MODULE PollerTrace ----------------------------
(* Trace validation of the real polling.Poller against Poller.tla.  One NDJSON line per Poll
   (driver: harness/drivers/certexchange TestPoller):
     Reset   a fresh poller over a fresh store (next instance logged)
     Poll    type "concrete": the scripted responder played the logged responses (behaviour, instance
             number and content hash of every item it wrote, advertised pending instance);
             type "honest": a real Server whose store holds base .. pend-1 (hashes in encs).
             Observed: status, NextInstance before/after, store before/after, the content hashes
             of the certificates now in the poller's store from the old NextInstance on, and the
             requests the responder received.
   The model result m = Poll(next0, responder) is computed from the logged responder only.       *)
EXTENDS Poller, Json, TLC, TLCExt
CONSTANT TraceFile
VARIABLES l, next, obs, bad
tvars == <<l, next, obs, bad>>

TraceLog == ndJsonDeserialize(TraceFile)
Ev == TraceLog[l]
NoObs == [kind |-> "none"]
IsEvent(e) == l <= Len(TraceLog) /\ TraceLog[l].ev = e /\ l' = l + 1

TInit == l = 1 /\ next = 0 /\ obs = NoObs /\ bad = {}
TrReset == IsEvent("Reset") /\ next' = Ev.next /\ obs' = NoObs
Responder == IF Ev.type = "honest" THEN [type |-> "honest", pend |-> Ev.pend, base |-> Ev.base, encs |-> Ev.encs]
             ELSE [type |-> "concrete", resps |-> Ev.resps]
TrPoll == /\ IsEvent("Poll")
          /\ next' = Ev.next1
          /\ obs' = [kind |-> "Poll", type |-> Ev.type, sync |-> (Ev.next0 = next /\ Ev.latest0 = next),
                     m |-> Poll(Ev.next0, Responder),
                     o |-> [status |-> Ev.status, next0 |-> Ev.next0, next1 |-> Ev.next1, latest1 |-> Ev.latest1,
                            stored |-> Ev.stored, reqs |-> Ev.reqs, recv |-> Ev.recv, newc |-> Ev.newc, interr |-> Ev.interr]]
TNext == TrReset \/ TrPoll

\* ------------------------------------------------------------------ property monitors (C16)
Polled == obs.kind = "Poll"
C16_PollerStoresOnlyValid == Polled => StoresOnlyValid(obs.m, obs.o)
C16_PollerAdvancesByPrefix == Polled => AdvancesByPrefix(obs.o.next0, obs.m, obs.o) /\ obs.o.latest1 = obs.o.next1
C16_PollerStatus == Polled => StatusIllegalIff(obs.m, obs.o)
\* ------------------------------------------------------------------ conformance
Conf_PollerSync == Polled => obs.sync
Conf_PollerStatus == Polled => obs.o.status = obs.m.status /\ ~obs.o.interr /\ obs.o.recv = obs.m.recv /\ obs.o.newc = obs.m.recv
Conf_PollerRequests == (Polled /\ obs.type = "concrete") =>
                          /\ [i \in DOMAIN obs.o.reqs |-> obs.o.reqs[i].first] = obs.m.reqs
                          /\ \A i \in DOMAIN obs.o.reqs : obs.o.reqs[i].limit = ReqLimit /\ ~obs.o.reqs[i].pt

Clauses == {"C16_PollerStoresOnlyValid", "C16_PollerAdvancesByPrefix", "C16_PollerStatus",
            "Conf_PollerSync", "Conf_PollerStatus", "Conf_PollerRequests"}
Holds(c) == CASE c = "C16_PollerStoresOnlyValid" -> C16_PollerStoresOnlyValid
              [] c = "C16_PollerAdvancesByPrefix" -> C16_PollerAdvancesByPrefix
              [] c = "C16_PollerStatus" -> C16_PollerStatus
              [] c = "Conf_PollerSync" -> Conf_PollerSync [] c = "Conf_PollerStatus" -> Conf_PollerStatus
              [] c = "Conf_PollerRequests" -> Conf_PollerRequests
TStep == /\ TNext
         /\ LET nb == {c \in Clauses : ~(Holds(c))'} IN
              /\ bad' = bad \cup {<<l, c>> : c \in nb}
              /\ (nb = {} \/ Cardinality(bad) > 40 \/ PrintT(<<"VERIF_BAD", l, nb>>))
TSpec == TInit /\ [][TStep]_tvars
=============================================================================

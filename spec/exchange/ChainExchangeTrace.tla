------------------------ MODULE ChainExchangeTrace ------------------------
(* Trace validation of the real chainexchange.PubSubChainExchange against ChainExchange.tla.
   One NDJSON line per call of the real object (driver: harness/drivers/chainexchange): arguments, what
   the call returned, and a read-only dump (w, d) of the two LRU cache maps after the call.

   Two layers:
   * the model (wanted, disc, last, histories) advances with ChainExchange.tla's own actions on the
     logged arguments; the validator's verdict is bound (DeliverWith) so that every action is total;
   * ow, od = the caches *observed in the code* after the previous call; obs = what the call returned
     plus the observed caches before / after it.
   C18_* clauses are the property's clauses evaluated on the OBSERVED behaviour (a failure is a
   VIOLATION); Conf_* clauses say "the code still is the implementation-shaped spec" (exact LRU content,
   exact verdict, exact return value; a failure alone is spec drift).                               *)
EXTENDS ChainExchange, Json, TLCExt
CONSTANT TraceFile
VARIABLES l, obs, ow, od, bad, cov, nstrict
tvars == <<cxvars, l, obs, ow, od, bad, cov, nstrict>>

TraceLog == ndJsonDeserialize(TraceFile)
NoObs == [kind |-> "none"]
Ev == TraceLog[l]
IsEvent(e) == l <= Len(TraceLog) /\ TraceLog[l].ev = e /\ l' = l + 1

\* JSON dump [{i, q: [{k, v}]}] -> instance -> cache (sequence of <<k, v>>, most recent first)
ToMap(dump) ==
  [i \in {dump[j].i : j \in DOMAIN dump} |->
     LET e == dump[CHOOSE j \in DOMAIN dump : dump[j].i = i] IN [n \in DOMAIN e.q |-> <<e.q[n].k, e.q[n].v>>]]
See == ow' = ToMap(Ev.w) /\ od' = ToMap(Ev.d)

Cov0 == [hit |-> 0, stored |-> 0, fits |-> 0, retainedKeys |-> 0, retainedLookup |-> 0, evicted |-> 0,
         badMsg |-> 0, accepted |-> 0, pruneBoth |-> 0, strictOnly |-> 0]
TInit == /\ CxInit([capW |-> 1, capD |-> 1, lookahead |-> 0, maxAge |-> 0, maxLen |-> 1], [id |-> 0, input |-> NoChain, now |-> 0])
         /\ l = 1 /\ obs = NoObs /\ ow = <<>> /\ od = <<>> /\ bad = {} /\ cov = Cov0 /\ nstrict = 0

TrReset ==
  /\ IsEvent("Reset")
  /\ wanted' = <<>> /\ disc' = <<>> /\ admitted' = {} /\ ever' = {} /\ ata' = {} /\ last' = NoLast
  /\ cfg' = [capW |-> Ev.capW, capD |-> Ev.capD, lookahead |-> Ev.lookahead, maxAge |-> Ev.maxAge, maxLen |-> Ev.maxLen]
  /\ prog' = [id |-> Ev.id, input |-> Ev.input, now |-> Ev.now]
  /\ See /\ obs' = [kind |-> "Reset"]

TrLookup ==
  /\ IsEvent("Lookup") /\ Lookup(Ev.inst, Ev.key) /\ See
  /\ obs' = [kind |-> "Lookup", inst |-> Ev.inst, key |-> Ev.key, ret |-> Ev.ret, retkey |-> Ev.retkey, found |-> Ev.found,
             wasStored |-> StoredIn(At(ow, Ev.inst), At(od, Ev.inst), Ev.key),
             wasAta |-> <<Ev.inst, Ev.key>> \in ata]

TrOwn ==
  /\ IsEvent("Own") /\ OwnBroadcast(Ev.inst, Ev.chain) /\ See
  /\ obs' = [kind |-> "Filed", inst |-> Ev.inst, chain |-> Ev.chain, pre |-> OwnPreOn(At(ow, Ev.inst), Ev.chain),
             fits |-> Len(Ev.chain) <= cfg.capW]

TrAdmit ==
  /\ IsEvent("Admit") /\ RemoteAdmit(Ev.inst, Ev.chain) /\ See
  /\ obs' = [kind |-> "Filed", inst |-> Ev.inst, chain |-> Ev.chain,
             pre |-> AdmitPreOn(At(ow, Ev.inst), At(od, Ev.inst), Ev.chain), fits |-> Len(Ev.chain) <= cfg.capD]

Msg == [shape |-> Ev.shape, inst |-> Ev.inst, chain |-> Ev.chain, ts |-> Ev.ts]
TrDeliver ==
  /\ IsEvent("Deliver") /\ DeliverWith(Msg, Ev.verdict) /\ See
  /\ obs' = [kind |-> "Deliver", msg |-> Msg, verdict |-> Ev.verdict, expect |-> Verdict(Msg), isBad |-> Bad(Msg),
             handed |-> [inst |-> Ev.vinst, chain |-> Ev.vchain, ts |-> Ev.vts],
             inst |-> Ev.inst, chain |-> Ev.chain,
             pre |-> Ev.verdict = "accept" /\ AdmitPreOn(At(ow, Ev.inst), At(od, Ev.inst), Ev.chain),
             fits |-> Ev.verdict = "accept" /\ Len(Ev.chain) <= cfg.capD]

TrPrune ==
  /\ IsEvent("Prune") /\ Prune(Ev.n) /\ See
  /\ obs' = [kind |-> "Prune", n |-> Ev.n, preW |-> ow, preD |-> od]

TrProgress == IsEvent("Progress") /\ SetProgress(Ev.id, Ev.input) /\ See /\ obs' = NoObs
TrClock == IsEvent("Clock") /\ SetClock(Ev.now) /\ See /\ obs' = NoObs

TNext == TrReset \/ TrLookup \/ TrOwn \/ TrAdmit \/ TrDeliver \/ TrPrune \/ TrProgress \/ TrClock

\* ------------------------------------------------------------------ property monitors (C18), on observed behaviour
IsLookupHit == obs.kind = "Lookup" /\ (obs.found \/ obs.ret # NoChain)
\* a lookup never returns a chain whose key differs from the requested key (content and recomputed key)
C18_LookupKeyMatches == IsLookupHit => (obs.found /\ obs.ret = obs.key /\ obs.retkey = obs.key)
\* ... nor a chain that was never admitted for that instance (or was pruned since)
C18_OnlyAdmitted == IsLookupHit => <<obs.inst, obs.ret>> \in admitted
\* what the node holds under a key is what a lookup by that key retrieves
C18_LookupFinds == (obs.kind = "Lookup" /\ obs.wasStored) => IsLookupHit
\* directly after an admit of a chain that fits, every prefix is held (and LookupFinds makes it retrievable)
C18_AdmitRetrievable == (obs.kind \in {"Filed", "Deliver"} /\ obs.pre) => RetrievableAll(ow, od, obs.inst, obs.chain)
\* the property's sentence without that precondition: "after a node admits a chain, that chain and every prefix
\* of it can be retrieved".  Where the conditional clause holds, a failure of this one is exactly the pattern
\* "a prefix that was already held is not refreshed and is evicted by the chain's own remaining prefixes"
\* (known finding F10; pubsub.go ContainsOrAdd / Peek-skip).  Reported separately from `bad`.
C18_AdmitRetrievableStrict == (obs.kind \in {"Filed", "Deliver"} /\ obs.fits) => RetrievableAll(ow, od, obs.inst, obs.chain)
\* solicited chains survive unsolicited traffic
C18_WantedRetained ==
  /\ Retained(ow, od)
  /\ (obs.kind = "Lookup" /\ obs.wasAta /\ Cardinality(KeysAt(ever, obs.inst)) <= cfg.capW) => IsLookupHit
\* broadcasts on the property's list are not admitted
C18_Verdict == obs.kind = "Deliver" => (obs.verdict = "accept" => ~obs.isBad)
\* prune removes exactly the instances below
C18_PruneExact == obs.kind = "Prune" => PrunedExactly(obs.preW, obs.preD, obs.n, ow, od)
\* ------------------------------------------------------------------ conformance
Conf_State == ow = wanted /\ od = disc
Conf_LookupRet == obs.kind = "Lookup" => (obs.ret = last.ret /\ obs.found = (last.ret # NoChain))
Conf_Verdict == obs.kind = "Deliver" =>
                  /\ obs.verdict = obs.expect
                  /\ obs.verdict = "accept" => obs.handed = [inst |-> obs.msg.inst, chain |-> obs.msg.chain, ts |-> obs.msg.ts]
Conf_Fresh == obs.kind = "Reset" => (ow = <<>> /\ od = <<>>)

\* ------------------------------------------------------------------ vacuity report
\* how often the antecedent of each clause was true (printed once, when the last line is consumed)
B(x) == IF x THEN 1 ELSE 0
CovStep ==
  cov' = [hit |-> cov.hit + B(IsLookupHit)',
          stored |-> cov.stored + B(obs.kind = "Lookup" /\ obs.wasStored)',
          fits |-> cov.fits + B(obs.kind \in {"Filed", "Deliver"} /\ obs.pre)',
          retainedKeys |-> cov.retainedKeys + Cardinality({p \in ata : Cardinality(KeysAt(ever, p[1])) <= cfg.capW})',
          retainedLookup |-> cov.retainedLookup + B(obs.kind = "Lookup" /\ obs.wasAta /\ Cardinality(KeysAt(ever, obs.inst)) <= cfg.capW)',
          \* a call that pushed something out of a discovered cache while a retained key exists at that instance
          evicted |-> cov.evicted + B(obs'.kind \in {"Filed", "Deliver"} /\ obs'.chain # NoChain
                                      /\ \E k \in Keys(At(od, obs'.inst)) : k \notin Keys(At(od', obs'.inst)) /\ k \notin Keys(At(ow', obs'.inst))
                                      /\ \E p \in ata' : p[1] = obs'.inst /\ Cardinality(KeysAt(ever', p[1])) <= cfg'.capW),
          strictOnly |-> cov.strictOnly + B(~C18_AdmitRetrievableStrict /\ C18_AdmitRetrievable)',
          badMsg |-> cov.badMsg + B(obs.kind = "Deliver" /\ obs.isBad)',
          accepted |-> cov.accepted + B(obs.kind = "Deliver" /\ obs.verdict = "accept")',
          pruneBoth |-> cov.pruneBoth + B(obs.kind = "Prune" /\ (\E i \in DOMAIN obs.preW \cup DOMAIN obs.preD : i < obs.n)
                                                           /\ (\E i \in DOMAIN obs.preW \cup DOMAIN obs.preD : i >= obs.n))']

Clauses == {"C18_LookupKeyMatches", "C18_OnlyAdmitted", "C18_LookupFinds", "C18_AdmitRetrievable", "C18_WantedRetained",
            "C18_Verdict", "C18_PruneExact", "Conf_State", "Conf_LookupRet", "Conf_Verdict", "Conf_Fresh"}
Holds(c) == CASE c = "C18_LookupKeyMatches" -> C18_LookupKeyMatches [] c = "C18_OnlyAdmitted" -> C18_OnlyAdmitted
              [] c = "C18_LookupFinds" -> C18_LookupFinds [] c = "C18_AdmitRetrievable" -> C18_AdmitRetrievable
              [] c = "C18_WantedRetained" -> C18_WantedRetained [] c = "C18_Verdict" -> C18_Verdict
              [] c = "C18_PruneExact" -> C18_PruneExact [] c = "Conf_State" -> Conf_State
              [] c = "Conf_LookupRet" -> Conf_LookupRet [] c = "Conf_Verdict" -> Conf_Verdict [] c = "Conf_Fresh" -> Conf_Fresh
TStep == /\ TNext
         /\ LET nb == {c \in Clauses : ~(Holds(c))'} IN
              /\ bad' = bad \cup {<<l, c>> : c \in nb}
              /\ (nb = {} \/ Cardinality(bad) > 2000 \/ PrintT(<<"VERIF_BAD", l, nb>>))
         /\ IF C18_AdmitRetrievableStrict' THEN nstrict' = nstrict
            ELSE /\ nstrict' = nstrict + 1
                 /\ (nstrict >= 3 \/ PrintT(<<"VERIF_BAD", l, {"C18_AdmitRetrievableStrict"}>>))
         /\ CovStep
         /\ (l' <= Len(TraceLog) \/ PrintT(<<"VERIF_COV", ToJson(cov')>>))
TSpec == TInit /\ [][TStep]_tvars
=============================================================================

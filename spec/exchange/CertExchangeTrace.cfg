SPECIFICATION TSpec
CONSTANTS
  Cap = 256
  NoTable = ""
  InclusiveEnd = FALSE
  TraceFile = "trace.ndjson"
CHECK_DEADLOCK FALSE

----------------------------- MODULE MCPollerLA -----------------------------
(* Design check of Poller.tla's node (poller + own certificate store) across LOCAL store advances.
   The honest chain is fixed at Init: delta[i+1] says whether the certificate of instance i changes the
   power table (every pattern over MaxInst instances).  The node starts with Start certificates and a
   poller in step with them; then any interleaving of

       LocalAdv(k)   the node's own consensus stores the next k in 1..3 honest certificates
       CatchUp       the public Poller.CatchUp
       PollA(sc, a)  one Poll against a responder script (<= 2 items over V / R / F with an advertised pending
                     instance, or a reset stream), while `a` in 0..2 further honest certificates are stored
                     locally during the first request

   Invariants (clauses of C16, poller half): the poller's table is the table of NextInstance in every
   reachable state; the store only ever holds the honest chain (nothing that does not validate against the
   node's own current table is stored); NextInstance never runs ahead of the store; a responder that only
   sends valid certificates is never classified Illegal and one whose accepted item is R / F always is.
   Dev # "none": named deviations of CatchUp, each required to produce a counterexample.               *)
EXTENDS Poller, TLC
CONSTANTS MaxInst, Start, Dev
VARIABLES n, delta, last
vars == <<n, delta, last>>

Honest(i) == <<"V", i>>                     \* ItemsRec's encoding of the valid certificate of instance i
HonestRun(a, k) == [j \in 1..k |-> Honest(a + j - 1)]
Env == [dev |-> Dev, delta |-> delta]
NoLast == [kinds |-> <<>>, status |-> "none", polled |-> FALSE]

KindsLA == {"V", "R", "F"}
SeqsLA == UNION {[1..m -> KindsLA] : m \in 0..2}
ScriptsLA == {<<[mode |-> "ok", po |-> po, kinds |-> ks]>> : po \in {0, 1, 3}, ks \in SeqsLA} \cup {<<[mode |-> "reset", po |-> 0, kinds |-> <<>>]>>}

Init == /\ delta \in [1..MaxInst -> BOOLEAN]
        /\ n = [next |-> Start, lag |-> 0, S |-> HonestRun(0, Start)]
        /\ last = NoLast
LocalAdv(k) == /\ Len(n.S) + k <= MaxInst
               /\ n' = LocalAdvanceN(n, HonestRun(Len(n.S), k))
               /\ last' = NoLast /\ UNCHANGED delta
CatchUp == /\ n' = CatchUpN(n, Env) /\ last' = NoLast /\ UNCHANGED delta
PollA(sc, a) == /\ Len(n.S) + a + 2 <= MaxInst
                /\ LET res == PollN(n, [type |-> "abstract", resps |-> sc], <<HonestRun(Len(n.S), a)>>, Env)
                   IN /\ n' = [next |-> res.next, lag |-> res.lag, S |-> res.S]
                      /\ last' = [kinds |-> sc[1].kinds, status |-> res.status, polled |-> TRUE]
                /\ UNCHANGED delta
Next == \/ \E k \in 1..3 : LocalAdv(k)
        \/ CatchUp
        \/ \E sc \in ScriptsLA, a \in 0..2 : PollA(sc, a)
Spec == Init /\ [][Next]_vars

InvTableOfNext == n.lag = 0
InvStoredOnlyValid == \A i \in DOMAIN n.S : n.S[i] = Honest(i - 1)
InvNextWithinStore == n.next <= Len(n.S)
InvClassifies == last.polled =>
   /\ (\A i \in DOMAIN last.kinds : last.kinds[i] = "V") => last.status # "Illegal"
   /\ (last.kinds # <<>> /\ last.kinds[1] # "V") => last.status = "Illegal"
=============================================================================

SPECIFICATION MCSpecCache
CONSTANTS
  EpochDiv = 1
  DiscoveredPeeksWanted = TRUE
  LookupPromotes = TRUE
  StoreWholeChain = FALSE
  PruneInclusive = FALSE
  AcceptPast = FALSE
  StrictAdmit = FALSE
  Insts = {0}
  PruneAt = {0, 1}
  ChainsC <- ChainsCache
  MsgChains <- ChainsCache
  CapW = 2
  CapD = 2
  Lookahead = 1
  MaxAge = 1
  Times = {0, 1, 2}
  ProgIds = {0, 1}
  HistOn = FALSE
  HistLen = 0
VIEW MCView
INVARIANTS WantedRetained CapacityRespected
PROPERTIES A_LookupKeyMatches A_LookupFinds A_OnlyAdmitted A_AdmitRetrievable A_PruneExact
CHECK_DEADLOCK FALSE

SPECIFICATION Spec
CONSTANTS
  Cap = 3
  NoTable = 0
  InclusiveEnd = FALSE
  MaxCerts = 3
  Firsts = {0, 3}
  Huge = 1073741824
  MaxPuts = 2
  Dev = "noclip"
INVARIANTS InvBelowPending InvAtMostLimit InvExactSlice InvPowerTable InvInterleavingIrrelevant
CHECK_DEADLOCK FALSE

--------------------------- MODULE CertExchange ---------------------------
(* Certificate exchange (property C16, first half): what the serving node answers to a
   request (first, limit, includePowerTable) given its certificate store, and what the
   requesting client hands to its caller.  Implementation-shaped transcription of
   certexchange/server.go handleRequest and certexchange/client.go Request:

     store   s = [first  |-> first instance of the store,
                  certs  |-> <<e_1 .. e_n>>   e_i = encoding of the certificate of instance first+i-1,
                  tables |-> <<t_1 .. t_n+1>> t_i = power table that validates instance first+i-1]
     request r = [first, limit, pt]

   Encodings / tables are opaque ids (integers in the exhaustive configuration, content
   hashes of the stored bytes in recorded executions).  All arithmetic is mathematical:
   a request value "Huge" stands for every uint64 >= 2^30 (no store in scope is that long).  *)
EXTENDS Integers, Sequences, FiniteSets
CONSTANTS Cap,          \* server-side cap on certificates per response (maxResponseLen = 256)
          NoTable,      \* id standing for "no power table in the response header"
          InclusiveEnd  \* named deviation (design-check mutant): range arithmetic before fix cafaeaa

Min(a, b) == IF a <= b THEN a ELSE b
Max(a, b) == IF a >= b THEN a ELSE b

NCerts(s) == Len(s.certs)
Pending(s) == IF NCerts(s) = 0 THEN 0 ELSE s.first + NCerts(s)   \* latest+1, 0 when nothing is finalized
HasCert(s, i) == i >= s.first /\ i < s.first + NCerts(s)
CertAt(s, i) == s.certs[i - s.first + 1]
HasTable(s, i) == i >= s.first /\ i <= s.first + NCerts(s)        \* certstore.GetPowerTable's domain
TableAt(s, i) == s.tables[i - s.first + 1]

EffLimit(r) == Min(r.limit, Cap)
\* Everything below the header is a function of the request, the (immutable) stored history and the
\* pending instance `p` the server sampled for its header -- NOT of the store's pending instance at the
\* time the range is read.  On a quiescent store p = Pending(s).
WantsTableAt(r, p) == r.pt /\ p >= r.first
ServeFailsAt(s, r, p) == WantsTableAt(r, p) /\ ~HasTable(s, r.first)   \* GetPowerTable error -> stream reset
EndExclAt(r, p) == IF InclusiveEnd THEN Min(r.first + EffLimit(r) + 1, p)
                   ELSE Min(r.first + EffLimit(r), p)
ServesCertsAt(r, p) == p > r.first /\ (InclusiveEnd \/ EffLimit(r) > 0)
RunLenAt(s, r, p) == IF ServesCertsAt(r, p) /\ HasCert(s, r.first) THEN EndExclAt(r, p) - r.first ELSE 0
ServeAt(s, r, p) ==
  IF ServeFailsAt(s, r, p) THEN [ok |-> FALSE, pending |-> 0, table |-> NoTable, certs |-> <<>>]
  ELSE [ok |-> TRUE, pending |-> p,
        table |-> IF WantsTableAt(r, p) THEN TableAt(s, r.first) ELSE NoTable,
        certs |-> [i \in 1..RunLenAt(s, r, p) |-> CertAt(s, r.first + i - 1)]]

WantsTable(s, r) == WantsTableAt(r, Pending(s))
ServeFails(s, r) == ServeFailsAt(s, r, Pending(s))
EndExcl(s, r) == EndExclAt(r, Pending(s))
ServesCerts(s, r) == ServesCertsAt(r, Pending(s))
RunLen(s, r) == RunLenAt(s, r, Pending(s))

\* The response: header (pending instance, power table or none) and the certificates written.
Serve(s, r) == ServeAt(s, r, Pending(s))

\* ---------------------------------------------------------------- the request on a concurrently advancing store
(* handleRequest is not atomic: it reads the store several times (Latest() for the header; GetPowerTable;
   one datastore read per certificate of GetRange) while certstore.Put may land between any two reads.
   Concurrent store  cs = [first, certs, tables, lat]:
       certs/tables  what is visible in the datastore (Put writes the certificate first),
       lat           number of certificates covered by the Latest() pointer (Put advances it last, under
                     the store mutex, so Latest() sees a Put entirely or not at all).
   In-flight request q = [r, pc, pending, table, end, certs, ok]; pc in hdr -> (tbl) -> bound -> rng -> done.
   `dev` names a deviation of the range bound (design-check mutants and nothing else):
       "none"      bound = the pending instance placed in the header            (the code)
       "resample"  bound = the store's pending instance re-read at that point   (TOCTOU)
       "noclip"    bound = first + limit only (GetRange stops at the first missing certificate)
       "cliphigh"  bound = header pending + 1                                                      *)
Committed(cs) == [first |-> cs.first, certs |-> SubSeq(cs.certs, 1, cs.lat), tables |-> SubSeq(cs.tables, 1, cs.lat + 1)]
Visible(cs) == [first |-> cs.first, certs |-> cs.certs, tables |-> cs.tables]
PendingLo(cs) == Pending(Committed(cs))
PendingHi(cs) == Pending(Visible(cs))
AsConc(s) == [first |-> s.first, certs |-> s.certs, tables |-> s.tables, lat |-> Len(s.certs)]
PutWriteEnabled(cs) == Len(cs.certs) = cs.lat                        \* one Put at a time (store mutex)
PutWrite(cs, e, t) == [cs EXCEPT !.certs = Append(@, e), !.tables = Append(@, t)]
PutCommit(cs) == [cs EXCEPT !.lat = Len(cs.certs)]

ReqStart(r) == [r |-> r, pc |-> "hdr", pending |-> 0, table |-> NoTable, end |-> 0, certs |-> <<>>, ok |-> TRUE]
StepHeader(cs, q) == LET p == PendingLo(cs) IN
   [q EXCEPT !.pending = p, !.pc = IF WantsTableAt(q.r, p) THEN "tbl" ELSE "bound"]
StepTable(cs, q) ==       \* GetPowerTable(first): domain first .. Latest()+1 at the time of the call; tables are history
   IF ~HasTable(Committed(cs), q.r.first) THEN [q EXCEPT !.ok = FALSE, !.pc = "done"]
   ELSE [q EXCEPT !.table = TableAt(Visible(cs), q.r.first), !.pc = "bound"]
StepBound(cs, q, dev) ==
   LET b == IF dev = "resample" THEN PendingLo(cs) ELSE q.pending
       e == CASE dev = "noclip" -> q.r.first + EffLimit(q.r)
              [] dev = "cliphigh" -> Min(q.r.first + EffLimit(q.r), q.pending + 1)
              [] OTHER -> Min(q.r.first + EffLimit(q.r), b)
   IN IF b > q.r.first /\ EffLimit(q.r) > 0 THEN [q EXCEPT !.end = e, !.pc = "rng"] ELSE [q EXCEPT !.pc = "done"]
StepReadCert(cs, q) ==    \* one datastore read of GetRange; the loop stops at the first missing certificate
   LET i == q.r.first + Len(q.certs) IN
   IF i < q.end /\ HasCert(Visible(cs), i) THEN [q EXCEPT !.certs = Append(@, CertAt(Visible(cs), i))]
   ELSE [q EXCEPT !.pc = "done"]
StepReq(cs, q, dev) == CASE q.pc = "hdr" -> StepHeader(cs, q) [] q.pc = "tbl" -> StepTable(cs, q)
                         [] q.pc = "bound" -> StepBound(cs, q, dev) [] q.pc = "rng" -> StepReadCert(cs, q)
\* the response of a finished request, in the shape the clauses below take
RespOf(q) == [ok |-> q.ok, pending |-> IF q.ok THEN q.pending ELSE 0, table |-> IF q.ok THEN q.table ELSE NoTable,
              certs |-> IF q.ok THEN q.certs ELSE <<>>,
              insts |-> IF q.ok THEN [i \in DOMAIN q.certs |-> q.r.first + i - 1] ELSE <<>>]

\* ---------------------------------------------------------------- client
\* `sent` = what arrives on the stream after the header: items [inst, dec, ...]; dec = FALSE for an
\* item the client cannot decode within its size limit (oversize / truncated stream).
\* The client forwards the longest prefix that is decodable, in sequence from r.first, of length <= limit.
InSeqLen(r, sent) ==
  LET good == {k \in 0..Min(Len(sent), r.limit) : \A i \in 1..k : sent[i].dec /\ sent[i].inst = r.first + i - 1}
  IN CHOOSE k \in good : \A j \in good : j <= k
ClientAccept(r, sent) == SubSeq(sent, 1, InSeqLen(r, sent))

\* ---------------------------------------------------------------- the clauses of C16 on a response `o`
\* o = [ok, pending, table, certs (ids), insts (decoded instance numbers)] observed for request r on store s.
AtMostLimit(r, o) == Len(o.certs) <= r.limit
BelowPending(o) == \A i \in DOMAIN o.insts : o.insts[i] < o.pending
ExactSlice(s, r, o) == \A i \in DOMAIN o.certs :
                          /\ HasCert(s, r.first + i - 1)
                          /\ o.certs[i] = CertAt(s, r.first + i - 1)
                          /\ o.insts[i] = r.first + i - 1
PowerTableOK(s, r, o) == /\ o.table # NoTable => (r.pt /\ HasTable(s, r.first) /\ o.table = TableAt(s, r.first))
                         /\ (r.pt /\ HasTable(s, r.first) /\ r.first <= o.pending) => o.table # NoTable
\* conformance (the property allows a server to send fewer certificates than it could)
Complete(s, r, o) == o.ok => (Len(o.certs) = RunLen(s, r) /\ Len(o.certs) <= Cap /\ o.pending = Pending(s))
=============================================================================

--------------------------- MODULE CertExchange ---------------------------
(* Certificate exchange (property C16, first half): what the serving node answers to a
   request (first, limit, includePowerTable) given its certificate store, and what the
   requesting client hands to its caller.  Implementation-shaped transcription of
   certexchange/server.go handleRequest and certexchange/client.go Request:

     store   s = [first  |-> first instance of the store,
                  certs  |-> <<e_1 .. e_n>>   e_i = encoding of the certificate of instance first+i-1,
                  tables |-> <<t_1 .. t_n+1>> t_i = power table that validates instance first+i-1]
     request r = [first, limit, pt]

   Encodings / tables are opaque ids (integers in the exhaustive configuration, content
   hashes of the stored bytes in recorded executions).  All arithmetic is mathematical:
   a request value "Huge" stands for every uint64 >= 2^30 (no store in scope is that long).  *)
EXTENDS Integers, Sequences, FiniteSets
CONSTANTS Cap,          \* server-side cap on certificates per response (maxResponseLen = 256)
          NoTable,      \* id standing for "no power table in the response header"
          InclusiveEnd  \* named deviation (design-check mutant): range arithmetic before fix cafaeaa

Min(a, b) == IF a <= b THEN a ELSE b
Max(a, b) == IF a >= b THEN a ELSE b

NCerts(s) == Len(s.certs)
Pending(s) == IF NCerts(s) = 0 THEN 0 ELSE s.first + NCerts(s)   \* latest+1, 0 when nothing is finalized
HasCert(s, i) == i >= s.first /\ i < s.first + NCerts(s)
CertAt(s, i) == s.certs[i - s.first + 1]
HasTable(s, i) == i >= s.first /\ i <= s.first + NCerts(s)        \* certstore.GetPowerTable's domain
TableAt(s, i) == s.tables[i - s.first + 1]

EffLimit(r) == Min(r.limit, Cap)
WantsTable(s, r) == r.pt /\ Pending(s) >= r.first
ServeFails(s, r) == WantsTable(s, r) /\ ~HasTable(s, r.first)     \* GetPowerTable error -> stream reset
EndExcl(s, r) == IF InclusiveEnd THEN Min(r.first + EffLimit(r) + 1, Pending(s))
                 ELSE Min(r.first + EffLimit(r), Pending(s))
ServesCerts(s, r) == Pending(s) > r.first /\ (InclusiveEnd \/ EffLimit(r) > 0)
RunLen(s, r) == IF ServesCerts(s, r) /\ HasCert(s, r.first) THEN EndExcl(s, r) - r.first ELSE 0

\* The response: header (pending instance, power table or none) and the certificates written.
Serve(s, r) ==
  IF ServeFails(s, r) THEN [ok |-> FALSE, pending |-> 0, table |-> NoTable, certs |-> <<>>]
  ELSE [ok |-> TRUE, pending |-> Pending(s),
        table |-> IF WantsTable(s, r) THEN TableAt(s, r.first) ELSE NoTable,
        certs |-> [i \in 1..RunLen(s, r) |-> CertAt(s, r.first + i - 1)]]

\* ---------------------------------------------------------------- client
\* `sent` = what arrives on the stream after the header: items [inst, dec, ...]; dec = FALSE for an
\* item the client cannot decode within its size limit (oversize / truncated stream).
\* The client forwards the longest prefix that is decodable, in sequence from r.first, of length <= limit.
InSeqLen(r, sent) ==
  LET good == {k \in 0..Min(Len(sent), r.limit) : \A i \in 1..k : sent[i].dec /\ sent[i].inst = r.first + i - 1}
  IN CHOOSE k \in good : \A j \in good : j <= k
ClientAccept(r, sent) == SubSeq(sent, 1, InSeqLen(r, sent))

\* ---------------------------------------------------------------- the clauses of C16 on a response `o`
\* o = [ok, pending, table, certs (ids), insts (decoded instance numbers)] observed for request r on store s.
AtMostLimit(r, o) == Len(o.certs) <= r.limit
BelowPending(o) == \A i \in DOMAIN o.insts : o.insts[i] < o.pending
ExactSlice(s, r, o) == \A i \in DOMAIN o.certs :
                          /\ HasCert(s, r.first + i - 1)
                          /\ o.certs[i] = CertAt(s, r.first + i - 1)
                          /\ o.insts[i] = r.first + i - 1
PowerTableOK(s, r, o) == /\ o.table # NoTable => (r.pt /\ HasTable(s, r.first) /\ o.table = TableAt(s, r.first))
                         /\ (r.pt /\ HasTable(s, r.first) /\ r.first <= o.pending) => o.table # NoTable
\* conformance (the property allows a server to send fewer certificates than it could)
Complete(s, r, o) == o.ok => (Len(o.certs) = RunLen(s, r) /\ Len(o.certs) <= Cap /\ o.pending = Pending(s))
=============================================================================

------------------------- MODULE CertExchangeTrace -------------------------
(* Trace validation of the real certexchange.Server / certexchange.Client against CertExchange.tla.
   One NDJSON line per call (driver: harness/drivers/certexchange TestServe):
     Store         a real certstore was filled: first instance, the stored encodings (content hashes of
                   the bytes in the datastore), the power table of every instance first .. pending
     Serve         one request answered by the real Server, read through the real Client (via = "client")
                   or through a raw stream reader that cuts everything the server wrote into
                   certificates (via = "raw")
     ClientScript  the real Client against a scripted responder that sends the logged items
   Requests served while the store advances (driver: TestServeConc) are logged as separate events, in the order
   in which they happened (the recorder is shared by the request goroutine, the datastore hook and the writer):
     Req           a request is sent (first, limit, pt; via; hook position k = the datastore read of this request
                   at which the hook performs nput certstore.Put calls, 0 = none / free-running writer)
     PutBegin      certstore.Put(certificate of instance inst) is about to be called (encoding, next power table)
     PutEnd        that Put returned
     Resp          the response as read by the real Client / the raw stream reader
   PutBegin/PutEnd are CertExchange!PutWrite/PutCommit; the response is compared with the step-wise request of
   CertExchange.tla run with the header value bound to the observed one (ServeAt; MCCertExchangeConc checks that
   the interleaving cannot matter otherwise).
   The observation is bound to `obs`; C16_* clauses compare it with the model (VIOLATION),
   Conf_* clauses say the code still behaves like the implementation-shaped spec (drift).       *)
EXTENDS CertExchange, Json, TLC, TLCExt
CONSTANT TraceFile
VARIABLES l, store, obs, bad, q
tvars == <<l, store, obs, bad, q>>

TraceLog == ndJsonDeserialize(TraceFile)
Ev == TraceLog[l]
NoObs == [kind |-> "none"]
IsEvent(e) == l <= Len(TraceLog) /\ TraceLog[l].ev = e /\ l' = l + 1

NoReq == [active |-> FALSE, r |-> [first |-> 0, limit |-> 0, pt |-> FALSE], plo |-> 0, via |-> "", k |-> 0]
TInit == l = 1 /\ store = [first |-> 0, certs |-> <<>>, tables |-> <<NoTable>>, lat |-> 0] /\ obs = NoObs /\ bad = {} /\ q = NoReq

TrStore == /\ IsEvent("Store")
           /\ store' = [first |-> Ev.first, certs |-> Ev.certs, tables |-> Ev.tables, lat |-> Len(Ev.certs)]
           /\ obs' = [kind |-> "Store", pending |-> Ev.pending] /\ q' = NoReq
TrServe == /\ IsEvent("Serve") /\ UNCHANGED <<store, q>>
           /\ obs' = [kind |-> "Serve", via |-> Ev.via, trail |-> Ev.trail,
                      req |-> [first |-> Ev.first, limit |-> Ev.limit, pt |-> Ev.pt],
                      o |-> [ok |-> Ev.ok, pending |-> Ev.pending, table |-> Ev.table, certs |-> Ev.certs, insts |-> Ev.insts]]
TrClientScript ==
           /\ IsEvent("ClientScript") /\ UNCHANGED <<store, q>>
           /\ obs' = [kind |-> "CS", req |-> [first |-> Ev.first, limit |-> Ev.limit, pt |-> Ev.pt],
                      sent |-> [i \in DOMAIN Ev.sent |-> [inst |-> Ev.sent[i].inst, enc |-> Ev.sent[i].enc,
                                                          dec |-> Ev.sent[i].kind \notin {"O", "T"}]],
                      ok |-> Ev.ok, pend |-> Ev.pend, pending |-> Ev.pending, got |-> Ev.got, ginsts |-> Ev.ginsts]
\* ---- requests on a concurrently advancing store
TrPutBegin == /\ IsEvent("PutBegin") /\ UNCHANGED q
              /\ store' = PutWrite(store, Ev.enc, Ev.ntab)
              /\ obs' = [kind |-> "PutBegin", seq |-> (PutWriteEnabled(store) /\ Ev.inst = store.first + Len(store.certs))]
TrPutEnd == /\ IsEvent("PutEnd") /\ UNCHANGED q
            /\ store' = PutCommit(store)
            /\ obs' = [kind |-> "PutEnd", seq |-> (~PutWriteEnabled(store) /\ Ev.pending = PendingHi(store))]
TrReq == /\ IsEvent("Req") /\ UNCHANGED store
         /\ q' = [active |-> TRUE, r |-> [first |-> Ev.first, limit |-> Ev.limit, pt |-> Ev.pt], plo |-> PendingLo(store), via |-> Ev.via, k |-> Ev.k]
         /\ obs' = [kind |-> "Req", seq |-> ~q.active]
TrResp == /\ IsEvent("Resp") /\ UNCHANGED store /\ q' = NoReq
          /\ obs' = [kind |-> "Resp", via |-> q.via, trail |-> Ev.trail, req |-> q.r, seq |-> q.active,
                     plo |-> q.plo, phi |-> PendingHi(store),
                     o |-> [ok |-> Ev.ok, pending |-> Ev.pending, table |-> Ev.table, certs |-> Ev.certs, insts |-> Ev.insts],
                     m |-> ServeAt(Visible(store), q.r, Ev.pending)]
TNext == TrStore \/ TrServe \/ TrClientScript \/ TrPutBegin \/ TrPutEnd \/ TrReq \/ TrResp

\* ------------------------------------------------------------------ property monitors (C16)
\* (for a Resp the store is the one at the time the response has been read: certificates are immutable, so
\*  "the serving node's stored certificates" are those of the grown store)
Served == obs.kind \in {"Serve", "Resp"} /\ obs.o.ok
C16_ExactSlice == Served => ExactSlice(store, obs.req, obs.o)
C16_AtMostLimit == Served => AtMostLimit(obs.req, obs.o)
C16_BelowPending == Served => BelowPending(obs.o)
C16_PowerTable == Served => PowerTableOK(store, obs.req, obs.o)
C16_ClientRejectsOutOfSequence ==
   obs.kind = "CS" => /\ \A i \in DOMAIN obs.ginsts : obs.ginsts[i] = obs.req.first + i - 1
                      /\ Len(obs.got) <= obs.req.limit
                      /\ \A i \in DOMAIN obs.got : i <= Len(obs.sent) /\ obs.got[i] = obs.sent[i].enc
\* ------------------------------------------------------------------ conformance
Conf_StorePending == obs.kind = "Store" => obs.pending = Pending(store)
Conf_ServeExact == obs.kind = "Serve" => /\ obs.o.ok = Serve(store, obs.req).ok
                                         /\ Complete(store, obs.req, obs.o)
                                         /\ obs.trail = 0
\* response to a request on an advancing store: the header value lies between the pending instance when the request
\* was sent and the one when the response had been read, and everything else is ServeAt(store, r, header value)
Conf_RespExact == obs.kind = "Resp" => /\ obs.seq /\ obs.trail = 0
                                       /\ ~obs.o.ok => \E p \in obs.plo..obs.phi : ServeFailsAt(Visible(store), obs.req, p)
                                       /\ obs.o.ok => /\ obs.m.ok
                                                       /\ obs.plo <= obs.o.pending /\ obs.o.pending <= obs.phi
                                                       /\ obs.o.certs = obs.m.certs /\ obs.o.table = obs.m.table
                                                       /\ Len(obs.o.certs) <= Cap
Conf_PutSeq == obs.kind \in {"PutBegin", "PutEnd", "Req"} => obs.seq
Conf_ClientPrefix == obs.kind = "CS" => LET acc == ClientAccept(obs.req, obs.sent) IN
                                        /\ obs.ok /\ obs.pending = obs.pend
                                        /\ obs.got = [i \in DOMAIN acc |-> acc[i].enc]

Clauses == {"C16_ExactSlice", "C16_AtMostLimit", "C16_BelowPending", "C16_PowerTable", "C16_ClientRejectsOutOfSequence",
            "Conf_StorePending", "Conf_ServeExact", "Conf_ClientPrefix", "Conf_RespExact", "Conf_PutSeq"}
Holds(c) == CASE c = "C16_ExactSlice" -> C16_ExactSlice [] c = "C16_AtMostLimit" -> C16_AtMostLimit
              [] c = "C16_BelowPending" -> C16_BelowPending [] c = "C16_PowerTable" -> C16_PowerTable
              [] c = "C16_ClientRejectsOutOfSequence" -> C16_ClientRejectsOutOfSequence
              [] c = "Conf_StorePending" -> Conf_StorePending [] c = "Conf_ServeExact" -> Conf_ServeExact
              [] c = "Conf_ClientPrefix" -> Conf_ClientPrefix
              [] c = "Conf_RespExact" -> Conf_RespExact [] c = "Conf_PutSeq" -> Conf_PutSeq
TStep == /\ TNext
         /\ LET nb == {c \in Clauses : ~(Holds(c))'} IN
              /\ bad' = bad \cup {<<l, c>> : c \in nb}
              /\ (nb = {} \/ Cardinality(bad) > 2000 \/ PrintT(<<"VERIF_BAD", l, nb>>))
TSpec == TInit /\ [][TStep]_tvars
=============================================================================

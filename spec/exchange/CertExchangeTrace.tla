------------------------- MODULE CertExchangeTrace -------------------------
(* Trace validation of the real certexchange.Server / certexchange.Client against CertExchange.tla.
   One NDJSON line per call (driver: harness/drivers/certexchange TestServe):
     Store         a real certstore was filled: first instance, the stored encodings (content hashes of
                   the bytes in the datastore), the power table of every instance first .. pending
     Serve         one request answered by the real Server, read through the real Client (via = "client")
                   or through a raw stream reader that cuts everything the server wrote into
                   certificates (via = "raw")
     ClientScript  the real Client against a scripted responder that sends the logged items
   The observation is bound to `obs`; C16_* clauses compare it with the model (VIOLATION),
   Conf_* clauses say the code still behaves like the implementation-shaped spec (drift).       *)
EXTENDS CertExchange, Json, TLC, TLCExt
CONSTANT TraceFile
VARIABLES l, store, obs, bad
tvars == <<l, store, obs, bad>>

TraceLog == ndJsonDeserialize(TraceFile)
Ev == TraceLog[l]
NoObs == [kind |-> "none"]
IsEvent(e) == l <= Len(TraceLog) /\ TraceLog[l].ev = e /\ l' = l + 1

TInit == l = 1 /\ store = [first |-> 0, certs |-> <<>>, tables |-> <<NoTable>>] /\ obs = NoObs /\ bad = {}

TrStore == /\ IsEvent("Store")
           /\ store' = [first |-> Ev.first, certs |-> Ev.certs, tables |-> Ev.tables]
           /\ obs' = [kind |-> "Store", pending |-> Ev.pending]
TrServe == /\ IsEvent("Serve") /\ UNCHANGED store
           /\ obs' = [kind |-> "Serve", via |-> Ev.via, trail |-> Ev.trail,
                      req |-> [first |-> Ev.first, limit |-> Ev.limit, pt |-> Ev.pt],
                      o |-> [ok |-> Ev.ok, pending |-> Ev.pending, table |-> Ev.table, certs |-> Ev.certs, insts |-> Ev.insts]]
TrClientScript ==
           /\ IsEvent("ClientScript") /\ UNCHANGED store
           /\ obs' = [kind |-> "CS", req |-> [first |-> Ev.first, limit |-> Ev.limit, pt |-> Ev.pt],
                      sent |-> [i \in DOMAIN Ev.sent |-> [inst |-> Ev.sent[i].inst, enc |-> Ev.sent[i].enc,
                                                          dec |-> Ev.sent[i].kind \notin {"O", "T"}]],
                      ok |-> Ev.ok, pend |-> Ev.pend, pending |-> Ev.pending, got |-> Ev.got, ginsts |-> Ev.ginsts]
TNext == TrStore \/ TrServe \/ TrClientScript

\* ------------------------------------------------------------------ property monitors (C16)
Served == obs.kind = "Serve" /\ obs.o.ok
C16_ExactSlice == Served => ExactSlice(store, obs.req, obs.o)
C16_AtMostLimit == Served => AtMostLimit(obs.req, obs.o)
C16_BelowPending == Served => BelowPending(obs.o)
C16_PowerTable == Served => PowerTableOK(store, obs.req, obs.o)
C16_ClientRejectsOutOfSequence ==
   obs.kind = "CS" => /\ \A i \in DOMAIN obs.ginsts : obs.ginsts[i] = obs.req.first + i - 1
                      /\ Len(obs.got) <= obs.req.limit
                      /\ \A i \in DOMAIN obs.got : i <= Len(obs.sent) /\ obs.got[i] = obs.sent[i].enc
\* ------------------------------------------------------------------ conformance
Conf_StorePending == obs.kind = "Store" => obs.pending = Pending(store)
Conf_ServeExact == obs.kind = "Serve" => /\ obs.o.ok = Serve(store, obs.req).ok
                                         /\ Complete(store, obs.req, obs.o)
                                         /\ obs.trail = 0
Conf_ClientPrefix == obs.kind = "CS" => LET acc == ClientAccept(obs.req, obs.sent) IN
                                        /\ obs.ok /\ obs.pending = obs.pend
                                        /\ obs.got = [i \in DOMAIN acc |-> acc[i].enc]

Clauses == {"C16_ExactSlice", "C16_AtMostLimit", "C16_BelowPending", "C16_PowerTable", "C16_ClientRejectsOutOfSequence",
            "Conf_StorePending", "Conf_ServeExact", "Conf_ClientPrefix"}
Holds(c) == CASE c = "C16_ExactSlice" -> C16_ExactSlice [] c = "C16_AtMostLimit" -> C16_AtMostLimit
              [] c = "C16_BelowPending" -> C16_BelowPending [] c = "C16_PowerTable" -> C16_PowerTable
              [] c = "C16_ClientRejectsOutOfSequence" -> C16_ClientRejectsOutOfSequence
              [] c = "Conf_StorePending" -> Conf_StorePending [] c = "Conf_ServeExact" -> Conf_ServeExact
              [] c = "Conf_ClientPrefix" -> Conf_ClientPrefix
TStep == /\ TNext
         /\ LET nb == {c \in Clauses : ~(Holds(c))'} IN
              /\ bad' = bad \cup {<<l, c>> : c \in nb}
              /\ (nb = {} \/ Cardinality(bad) > 40 \/ PrintT(<<"VERIF_BAD", l, nb>>))
TSpec == TInit /\ [][TStep]_tvars
=============================================================================

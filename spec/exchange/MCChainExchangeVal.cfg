SPECIFICATION MCSpecVal
CONSTANTS
  EpochDiv = 1
  DiscoveredPeeksWanted = TRUE
  LookupPromotes = TRUE
  StoreWholeChain = FALSE
  PruneInclusive = FALSE
  AcceptPast = FALSE
  StrictAdmit = FALSE
  Insts = {0, 1, 2, 3}
  PruneAt = {}
  ChainsC <- ChainsSmall
  MsgChains <- ChainsSmall
  CapW = 2
  CapD = 2
  Lookahead = 1
  MaxAge = 1
  Times = {0, 1, 2, 3}
  ProgIds = {0, 1, 2}
  HistOn = FALSE
  HistLen = 0
VIEW MCView
PROPERTIES A_VerdictSound A_VerdictExact A_AdmitRetrievable
CHECK_DEADLOCK FALSE

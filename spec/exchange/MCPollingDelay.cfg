SPECIFICATION Spec
CONSTANTS
  OffsetMax = FALSE
  SettleN = 64
  SettleW = 136
  Configs <- DelayConfigs
  ReqTimes <- DelayReqTimes
  LocalDuring = {FALSE, TRUE}
  MaxRounds = 5
INVARIANTS InvProgressExact InvDelayEnvelope InvBounded
CHECK_DEADLOCK FALSE

---------------------------- MODULE PollingTrace ----------------------------
(* Trace validation of the real polling subscriber / predictor against Polling.tla (property C20).
   Recorded by harness/drivers/polling, one NDJSON line per call / round:

     PReset, Update   the REAL predictor: update(progress) -> interval.  Open loop (TLC-generated progress
                      sequences) and closed loop over a production pattern (wait = returned interval).
     AReset, ARound   one round of the REAL Subscriber driven through accessors: CatchUp, then poll() if there
                      was no local progress; what they reported, poller instance and store before/after.
     RReset, Round    one round of the REAL Subscriber.run loop on a mock clock: pollTime, poller instance and
                      store before/after, request time, the delay armed (predictedPollingInterval gauge,
                      cross-checked against the timer), requests seen by the peers.

   The model predictor advances with the TRUE progress (advance of the poller) of every round; the delay
   envelope is evaluated against its interval, the cadence monitors against the observed waits.          *)
EXTENDS Polling, Json, TLC, TLCExt
CONSTANT TraceFile
VARIABLES l, c, pred, mon, next, obs, bad
tvars == <<l, c, pred, mon, next, obs, bad>>

TraceLog == ndJsonDeserialize(TraceFile)
Ev == TraceLog[l]
NoObs == [kind |-> "none"]
IsEvent(e) == l <= Len(TraceLog) /\ TraceLog[l].ev = e /\ l' = l + 1

TInit == /\ l = 1 /\ c = [mn |-> 100, init |-> 100, mx |-> 100, segs |-> <<>>, closed |-> FALSE]
         /\ pred = NewPredictor(100, 100, 100) /\ mon = MonInit /\ next = 0 /\ obs = NoObs /\ bad = {}

TrPReset == /\ IsEvent("PReset")
            /\ c' = [mn |-> Ev.mn, init |-> Ev.init, mx |-> Ev.mx, segs |-> Ev.segs, closed |-> Ev.closed]
            /\ pred' = NewPredictor(Ev.mn, Ev.init, Ev.mx) /\ mon' = MonInit /\ next' = 0 /\ obs' = NoObs
TrUpdate == /\ IsEvent("Update")
            /\ LET u == Update(pred, Ev.progress) IN
               /\ pred' = u.p
               /\ mon' = MonStep(mon, c, Ev.t, Ev.progress, 0, Ev.out)      \* monitors run on the REAL output
               /\ obs' = [kind |-> "Update", out |-> Ev.out, model |-> u.out,
                          envok |-> (~c.closed \/ Ev.progress = Produced(c.segs, Ev.t) - next)]
            /\ next' = next + Ev.progress /\ UNCHANGED c

TrAReset == /\ IsEvent("AReset") /\ next' = Ev.next /\ obs' = NoObs /\ UNCHANGED <<c, pred, mon>>
TrARound == /\ IsEvent("ARound")
            /\ obs' = [kind |-> "ARound", nb |-> Ev.nb, na |-> Ev.na, sprev |-> Ev.sprev, sb |-> Ev.sb, sa |-> Ev.sa,
                       cprog |-> Ev.cprog, polled |-> Ev.polled, progress |-> Ev.progress, newcert |-> Ev.newcert,
                       localin |-> Ev.local_in, interr |-> Ev.interr, sync |-> (Ev.nb = next)]
            /\ next' = Ev.na /\ UNCHANGED <<c, pred, mon>>

TrRReset == /\ IsEvent("RReset")
            /\ c' = [mn |-> Ev.mn, init |-> Ev.init, mx |-> Ev.mx, segs |-> Ev.segs, closed |-> TRUE]
            /\ pred' = NewPredictor(Ev.mn, Ev.init, Ev.mx) /\ mon' = MonInit /\ next' = Ev.next /\ obs' = NoObs
TrRound == /\ IsEvent("Round")
           /\ LET cprog == Ev.sb - Ev.nb
                  polled == cprog = 0
                  progress == Ev.na - Ev.nb
                  u == Update(pred, progress)
                  newCert == polled /\ (Ev.sa - Ev.sb - Ev.local_in) > 0
              IN /\ pred' = u.p
                 /\ mon' = MonStep(mon, c, Ev.t, progress, Ev.rt, Ev.rt + Ev.armed)
                 /\ obs' = [kind |-> "Round", I |-> u.out, rt |-> Ev.rt, armed |-> Ev.armed, polled |-> polled,
                            progress |-> progress, newCert |-> newCert, nreq |-> Ev.nreq, early |-> Ev.early,
                            envok |-> (Ev.target = Produced(c.segs, Ev.t) /\ Ev.na <= Ev.target),
                            sync |-> (Ev.nb = next /\ Ev.sprev = Ev.nb /\ Ev.sa = Ev.na /\ Ev.sb >= Ev.nb)]
           /\ next' = Ev.na /\ UNCHANGED c
TNext == TrPReset \/ TrUpdate \/ TrAReset \/ TrARound \/ TrRReset \/ TrRound

\* ------------------------------------------------------------------ property monitors (C20)
Reported == IF obs.polled THEN obs.progress ELSE obs.cprog
C20_ProgressExact == obs.kind = "ARound" => (Reported = obs.sa - obs.sprev /\ Reported = obs.na - obs.nb)
C20_DelayEnvelope == obs.kind = "Round" => InEnvelope(obs.I, obs.rt, obs.armed)
C20_SettlesAtProductionRate == "Settles" \notin mon.viol
C20_ShrinksOnBursts == "Shrinks" \notin mon.viol
C20_BacksOffOnStall == "BacksOff" \notin mon.viol
\* ------------------------------------------------------------------ conformance
Conf_Predictor == obs.kind = "Update" => obs.out = obs.model
Conf_Env == obs.kind \in {"Update", "Round"} => obs.envok
Conf_DelayExact == obs.kind = "Round" =>
                     /\ obs.armed = Armed(obs.I, obs.rt, OffsetOf(obs.polled, obs.progress, obs.newCert, obs.rt))
                     /\ ~obs.early
Conf_RoundShape == obs.kind = "Round" => /\ obs.sync
                                         /\ (~obs.polled => (obs.nreq = 0 /\ obs.rt = 0))
Conf_ARound == obs.kind = "ARound" =>
                 /\ obs.sync /\ ~obs.interr /\ obs.sprev = obs.nb /\ obs.sa = obs.na
                 /\ obs.cprog = obs.sb - obs.nb /\ obs.polled = (obs.cprog = 0)
                 /\ (obs.polled => (obs.newcert = ((obs.sa - obs.sb - obs.localin) > 0)))

Clauses == {"C20_ProgressExact", "C20_DelayEnvelope", "C20_SettlesAtProductionRate", "C20_ShrinksOnBursts", "C20_BacksOffOnStall",
            "Conf_Predictor", "Conf_Env", "Conf_DelayExact", "Conf_RoundShape", "Conf_ARound"}
Holds(x) == CASE x = "C20_ProgressExact" -> C20_ProgressExact [] x = "C20_DelayEnvelope" -> C20_DelayEnvelope
              [] x = "C20_SettlesAtProductionRate" -> C20_SettlesAtProductionRate
              [] x = "C20_ShrinksOnBursts" -> C20_ShrinksOnBursts [] x = "C20_BacksOffOnStall" -> C20_BacksOffOnStall
              [] x = "Conf_Predictor" -> Conf_Predictor [] x = "Conf_Env" -> Conf_Env
              [] x = "Conf_DelayExact" -> Conf_DelayExact [] x = "Conf_RoundShape" -> Conf_RoundShape
              [] x = "Conf_ARound" -> Conf_ARound
TStep == /\ TNext
         /\ LET nb == {x \in Clauses : ~(Holds(x))'} IN
              /\ bad' = bad \cup {<<l, x>> : x \in nb}
              /\ (nb = {} \/ Cardinality(bad) > 2000 \/ PrintT(<<"VERIF_BAD", l, nb>>))
         /\ (mon'.win <= mon.win \/ PrintT(<<"VERIF_WINDOW", l>>))       \* a settle window was judged here
TSpec == TInit /\ [][TStep]_tvars
=============================================================================

SPECIFICATION Spec
CONSTANTS
  Cap = 256
  NoTable = 0
  InclusiveEnd = FALSE
  ReqLimit = 256
  ValidateFirst = TRUE
  MaxInst = 7
  Start = 1
  Dev = "none"
INVARIANTS InvTableOfNext InvStoredOnlyValid InvNextWithinStore InvClassifies
CHECK_DEADLOCK FALSE

SPECIFICATION Spec
CONSTANTS
  Cap = 256
  NoTable = 0
  InclusiveEnd = FALSE
  ReqLimit = 256
  ValidateFirst = TRUE
  Next0 = 2
  L1 = 3
  L1b = 1
  L2 = 1
INVARIANTS InvStoredOnlyValid InvAdvancesByPrefix InvRequests InvStatus Emit
CHECK_DEADLOCK FALSE

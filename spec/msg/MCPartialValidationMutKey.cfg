INIT Init
NEXT Next
CONSTANTS
  Lookback = 4
  Mut = "nokeycheck"
  EmitRows = FALSE
  NSlices = 8
  Slice = 1
INVARIANTS D_Design Emit
CHECK_DEADLOCK FALSE

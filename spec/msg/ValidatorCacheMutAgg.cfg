INIT Init
NEXT Next
CONSTANTS
  Lookback = 4
  KeyMut = "noagg"
INVARIANT HistoryIndependent
CHECK_DEADLOCK FALSE

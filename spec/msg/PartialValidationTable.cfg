SPECIFICATION TSpec
CONSTANTS
  Lookback = 4
  Mut = "none"
  TraceFile = "trace.ndjson"
CHECK_DEADLOCK FALSE

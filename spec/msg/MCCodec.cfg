SPECIFICATION MCSpec
CONSTANTS
  EmitFile = "cases.ndjson"
INVARIANTS InvGen
CHECK_DEADLOCK FALSE

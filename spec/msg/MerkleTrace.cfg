SPECIFICATION TSpec
CONSTANTS
  BatchVariant = "code"
  MaxN = 128
  TraceFile = "trace.ndjson"
CHECK_DEADLOCK FALSE

SPECIFICATION Spec
CONSTANTS
  InferOnDiscovery = FALSE
  IndexByInstance = TRUE
  PruneInclusive = FALSE
  Stage2ChecksKey = TRUE
  Insts = {10, 11}
  ChainsC <- ChainsTwo
  Senders = {1, 2}
  JKs = {"val"}
  Cap = 1
  CapOut = 2
  MaxArr = 3
  PruneAt = {10, 11}
  Tamper = FALSE
  WithBroadcast = FALSE
  HistOn = FALSE
  HistLen = 0
  WithLookup = FALSE
INVARIANTS
  C13_MgrRoundTrip
CHECK_DEADLOCK FALSE

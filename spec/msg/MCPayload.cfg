SPECIFICATION MCSpec
CONSTANTS
  BatchVariant = "code"
  Variant = "code"
  WInt = 8
  WDigest = 32
  Mode = "real"
  Size = "small"
  Kinds = {"P","T","V","C"}
INVARIANTS InvSingleField InvLen InvTipSetInjective
CHECK_DEADLOCK FALSE

----------------------------- MODULE Validator -----------------------------
(* Message validation of go-f3 (gpbft/validator.go) as a function of
     the message m, the committee of m's instance (cm = the host has one) and the participant's progress g.

   Two formulations, compared with each other by the design check (MCValidator) and with the real
   gpbft.Participant.ValidateMessage by the table check (ValidatorTable):
     * Verdict(x, g, cm)  -- implementation shaped: the checks in the order validator.go makes them,
                             result in {"OK","Invalid","TooOld","NotRelevant","NoCommittee"};
     * AllRules(x), Relevant(x, g) -- the rules of property C05 stated declaratively (a conjunction).

   Abstract message = a record of coordinates.  The enumerated space uses *relative* coordinates
   (sig: ok / genuine signature over another value / genuine signature of another member; jv: same as the
   message value / bottom / other / malformed; ...); Abs() resolves them to absolute ones (which value's key
   the signature covers, which value's key the aggregate covers, ...), the form PartialValidation.tla needs
   to describe strip / complete.  Chains are names; the key of a chain is its name ("bot" = zero key; the key
   function is injective, also on the malformed chain "bad").  Rounds are uint64: a negative integer n stands
   for 2^64 + n, so -1 = MaxUint64 and +1/-1 wrap exactly like the Go arithmetic.                          *)
EXTENDS Integers, Sequences, FiniteSets, TLC

CONSTANTS Lookback        \* committee lookback (validator.go:297); messages of instance >= current+Lookback have no committee

\* Parameter s ("round sentinel") of the implementation-shaped operators:
\*   TRUE  = as coded at the pinned commit: an expected justification round equal to MaxUint64 means "any round"
\*           (validator.go:387 and :394), which also catches COMMIT messages of round MaxUint64;
\*   FALSE = only DECIDE's justification may be from any round (what the property prescribes).

MsgPhases == {"QUALITY", "CONVERGE", "PREPARE", "COMMIT", "DECIDE"}
NonMsgPhases == {"INITIAL", "TERMINATED", "BOGUS"}
ProgressPhases == {"INITIAL", "QUALITY", "CONVERGE", "PREPARE", "COMMIT", "DECIDE", "TERMINATED"}
VerdictClasses == {"OK", "Invalid", "TooOld", "NotRelevant", "NoCommittee"}

\* unsigned comparison of uint64 values in the signed representation
UGe(a, b) == IF (a < 0) = (b < 0) THEN a >= b ELSE a < 0

\* ---------------------------------------------------------------- coordinates
Dims == [ph    |-> MsgPhases \cup NonMsgPhases,
         r     |-> {0, 1, 2, -1},
         v     |-> {"bot", "base", "ext", "bad"},
         snd   |-> {"member", "zero", "stranger"},         \* zero: in the table, scaled power 0
         sig   |-> {"ok", "otherpayload", "othersigner"},
         tk    |-> {"none", "ok", "wronground", "othersigner", "absent"},
         jph   |-> {"none", "PREPARE", "COMMIT", "QUALITY"},
         jr    |-> {-1, 0, 1},
         jv    |-> {"same", "bot", "other", "bad"},
         jinst |-> {"same", "other"},
         jsupp |-> {"same", "other"},
         jS    |-> {"strong", "short", "zero", "oob"},     \* 3 of 4 equal members | 2 of 4 | strong + a zero-power member | strong + index beyond the table
         jagg  |-> {"ok", "otherpayload", "othersigners"}]
ProgressDims == [di |-> -2 .. Lookback + 1, cr |-> 0 .. 3, cph |-> ProgressPhases]

JNone == [jph |-> "none", jr |-> 0, jv |-> "same", jinst |-> "same", jsupp |-> "same", jS |-> "strong", jagg |-> "ok"]
JFull == {j \in [jph : Dims.jph \ {"none"}, jr : Dims.jr, jv : Dims.jv, jinst : Dims.jinst, jsupp : Dims.jsupp,
                 jS : Dims.jS, jagg : Dims.jagg] : ~(j.jinst = "other" /\ j.jsupp = "other")}
JSmall == {JNone} \cup {j \in JFull : j.jr = 0 /\ j.jv = "same" /\ j.jinst = "same" /\ j.jsupp = "same" /\ j.jS = "strong"
                                      /\ j.jagg = "ok" /\ j.jph # "QUALITY"}
CoreAll == {c \in [ph : Dims.ph, r : Dims.r, v : Dims.v, snd : Dims.snd, sig : Dims.sig, tk : Dims.tk] :
              /\ (c.ph = "CONVERGE") = (c.tk # "none")        \* tickets only vary on CONVERGE messages
              /\ (c.snd # "member" => c.sig = "ok")}
CoreMsg == {c \in CoreAll : c.ph \in MsgPhases}
CoreNonMsg == {c \in CoreAll : c.ph \in NonMsgPhases}
\* The message space: CoreMsg x ({JNone} \cup JFull)  \cup  CoreNonMsg x JSmall
InSpace(c, j) == \/ c \in CoreMsg /\ (j = JNone \/ j \in JFull)
                 \/ c \in CoreNonMsg /\ j \in JSmall
Flat(c, j) == [ph |-> c.ph, r |-> c.r, v |-> c.v, snd |-> c.snd, sig |-> c.sig, tk |-> c.tk, jph |-> j.jph, jr |-> j.jr,
               jv |-> j.jv, jinst |-> j.jinst, jsupp |-> j.jsupp, jS |-> j.jS, jagg |-> j.jagg]
CoreOf(m) == [ph |-> m.ph, r |-> m.r, v |-> m.v, snd |-> m.snd, sig |-> m.sig, tk |-> m.tk]
JOf(m) == [jph |-> m.jph, jr |-> m.jr, jv |-> m.jv, jinst |-> m.jinst, jsupp |-> m.jsupp, jS |-> m.jS, jagg |-> m.jagg]

\* absolute coordinates
AbsJ(m, jv) ==
  [ph |-> m.ph, r |-> m.r, v |-> m.v, snd |-> m.snd, tk |-> m.tk,
   sigv   |-> IF m.sig = "otherpayload" THEN "other" ELSE m.v,      \* value whose key the vote signature covers
   sigby  |-> IF m.sig = "othersigner" THEN "another" ELSE "sender",
   jph |-> m.jph, jround |-> m.r + m.jr, jv |-> jv, jinst |-> m.jinst, jsupp |-> m.jsupp, jS |-> m.jS,
   jaggv  |-> IF m.jagg = "otherpayload" THEN "alt" ELSE jv,        \* value whose key the aggregate covers
   jaggby |-> IF m.jagg = "othersigners" THEN "others" ELSE "claimed"]
Abs(m) == AbsJ(m, IF m.jv = "same" THEN m.v ELSE m.jv)

\* ---------------------------------------------------------------- implementation-shaped verdict
\* validateByProgress, validator.go:294-331
ByProgress(x, g) ==
  IF g.di >= Lookback THEN "NoCommittee"
  ELSE IF g.di > 0 \/ (g.di = -1 /\ x.ph = "DECIDE") THEN "ok"
  ELSE IF g.di = 0 THEN
         (IF g.cph = "DECIDE" /\ x.ph # "DECIDE" THEN "NotRelevant"
          ELSE IF x.ph = "QUALITY" \/ x.ph = "DECIDE" \/ UGe(x.r, g.cr) \/ x.r + 1 = g.cr THEN "ok"
          ELSE "NotRelevant")
  ELSE "TooOld"

NeedsJ(x) == ~(x.ph = "QUALITY" \/ (x.ph = "PREPARE" /\ x.r = 0) \/ (x.ph = "COMMIT" /\ x.v = "bot"))

\* expectation table, validator.go:365-389; k = msgKey (full messages: key of the vote value; partial: the announced key)
ExpectK(x, k) ==
  CASE x.ph \in {"CONVERGE", "PREPARE"} /\ x.jph = "COMMIT"  -> [ok |-> TRUE, round |-> x.r - 1, any |-> FALSE, key |-> "bot"]
    [] x.ph \in {"CONVERGE", "PREPARE"} /\ x.jph = "PREPARE" -> [ok |-> TRUE, round |-> x.r - 1, any |-> FALSE, key |-> k]
    [] x.ph = "COMMIT" /\ x.jph = "PREPARE"                  -> [ok |-> TRUE, round |-> x.r, any |-> FALSE, key |-> k]
    [] x.ph = "DECIDE" /\ x.jph = "COMMIT"                   -> [ok |-> TRUE, round |-> -1, any |-> TRUE, key |-> k]
    [] OTHER                                                 -> [ok |-> FALSE, round |-> 0, any |-> FALSE, key |-> "bot"]
Expect(x) == ExpectK(x, x.v)
RoundAccepted(e, jround, s) == jround = e.round \/ (IF s THEN e.round = -1 ELSE e.any)

\* validateJustification + validateJustificationSignature, validator.go:333-470 (non-partial)
\* (operators take the looked-up expectation e as an argument: TLC caches argument values, not LET definitions)
JustificationAcceptedE(x, e, s) ==
  IF ~e.ok THEN FALSE
  ELSE IF ~RoundAccepted(e, x.jround, s) THEN FALSE
  ELSE IF x.jv # e.key THEN FALSE                       \* justification for a different value
  ELSE IF x.jS # "strong" THEN FALSE                    \* GetSigners error (index, zero power) or no strong quorum
  ELSE x.jaggv = e.key /\ x.jaggby = "claimed"          \* aggregate over the payload with the expected key
JustificationAccepted(x, s) ==
  IF x.jph = "none" THEN FALSE
  ELSE IF x.jinst # "same" THEN FALSE
  ELSE IF x.jsupp # "same" THEN FALSE
  ELSE IF x.jv = "bad" THEN FALSE
  ELSE JustificationAcceptedE(x, Expect(x), s)

\* validateMessageWithVoteValueKey, validator.go:194-292 (non-partial, cache miss)
Content(x, cm, s) ==
  IF ~cm THEN "NoCommittee"
  ELSE IF x.snd # "member" THEN "Invalid"
  ELSE IF x.v = "bad" THEN "Invalid"
  ELSE IF x.ph = "QUALITY" /\ (x.r # 0 \/ x.v = "bot") THEN "Invalid"
  ELSE IF x.ph = "CONVERGE" /\ (x.r = 0 \/ x.v = "bot" \/ x.tk # "ok") THEN "Invalid"
  ELSE IF x.ph = "DECIDE" /\ (x.r # 0 \/ x.v = "bot") THEN "Invalid"
  ELSE IF x.ph \notin MsgPhases THEN "Invalid"
  ELSE IF ~(x.sigv = x.v /\ x.sigby = "sender") THEN "Invalid"
  ELSE IF NeedsJ(x) THEN (IF JustificationAccepted(x, s) THEN "OK" ELSE "Invalid")
  ELSE IF x.jph # "none" THEN "Invalid"
  ELSE "OK"

VerdictP(p, x, cm, s) == IF p # "ok" THEN p ELSE Content(x, cm, s)
Verdict(x, g, cm, s) == VerdictP(ByProgress(x, g), x, cm, s)

\* ---------------------------------------------------------------- the rules of property C05, declaratively
SenderRule(x) == x.snd = "member"                               \* in the committee with non-zero scaled power
ValueRule(x) == x.v # "bad"                                     \* well-formed value
StepRule(x) == CASE x.ph = "QUALITY"  -> x.r = 0 /\ x.v # "bot"
                 [] x.ph = "CONVERGE" -> x.r # 0 /\ x.v # "bot" /\ x.tk = "ok"
                 [] x.ph = "PREPARE"  -> TRUE
                 [] x.ph = "COMMIT"   -> TRUE
                 [] x.ph = "DECIDE"   -> x.r = 0 /\ x.v # "bot"
                 [] OTHER             -> FALSE
SignatureRule(x) == x.sigv = x.v /\ x.sigby = "sender"          \* the sender's signature over the exact payload
JustificationRequired(x) == CASE x.ph = "QUALITY" -> FALSE
                              [] x.ph = "PREPARE" -> x.r # 0
                              [] x.ph = "COMMIT"  -> x.v # "bot"
                              [] OTHER            -> TRUE
\* prescribed (step, round, value) of the justification; round "any" only for DECIDE
Prescribed(x) ==
  CASE x.ph \in {"CONVERGE", "PREPARE"} -> {[jph |-> "COMMIT", any |-> FALSE, round |-> x.r - 1, v |-> "bot"],
                                            [jph |-> "PREPARE", any |-> FALSE, round |-> x.r - 1, v |-> x.v]}
    [] x.ph = "COMMIT"                  -> {[jph |-> "PREPARE", any |-> FALSE, round |-> x.r, v |-> x.v]}
    [] x.ph = "DECIDE"                  -> {[jph |-> "COMMIT", any |-> TRUE, round |-> 0, v |-> x.v]}
    [] OTHER                            -> {}
JustificationRule(x) ==
  IF JustificationRequired(x)
  THEN /\ x.jph # "none"
       /\ \E p \in Prescribed(x) : p.jph = x.jph /\ (p.any \/ p.round = x.jround) /\ p.v = x.jv
       /\ x.jinst = "same" /\ x.jsupp = "same"
       /\ x.jS = "strong"                                        \* strong quorum of existing members with power
       /\ x.jaggv = x.jv /\ x.jaggby = "claimed"                 \* aggregate of exactly those signers over the justification's payload
  ELSE x.jph = "none"
AllRules(x) == SenderRule(x) /\ ValueRule(x) /\ StepRule(x) /\ SignatureRule(x) /\ JustificationRule(x)

\* "still relevant to the participant's current instance, round and step" (and within the committee lookahead)
Relevant(x, g) ==
  \/ g.di > 0 /\ g.di < Lookback
  \/ g.di = -1 /\ x.ph = "DECIDE"
  \/ g.di = 0 /\ (IF g.cph = "DECIDE" THEN x.ph = "DECIDE"
                  ELSE x.ph \in {"QUALITY", "DECIDE"} \/ UGe(x.r, g.cr) \/ x.r + 1 = g.cr)

\* ---------------------------------------------------------------- clauses of C05 over one observation
\* o = [m (flat relative coordinates), g, cm, seen = set of verdict classes the real code returned for this
\*      (message, committee, progress) under all histories tried, fresh = the class returned by a fresh participant]
SoundX(o, x) == "OK" \in o.seen => AllRules(x)
CompleteX(o, x) == (AllRules(x) /\ Relevant(x, o.g) /\ o.cm) => o.seen = {"OK"}
NotBrandedX(o, x) == AllRules(x) => "Invalid" \notin o.seen
C05_Sound(o) == SoundX(o, Abs(o.m))
C05_Complete(o) == CompleteX(o, Abs(o.m))
C05_NotBrandedInvalid(o) == NotBrandedX(o, Abs(o.m))
C05_HistoryIndependent(o) == o.seen = {o.fresh}
\* conformance: exactly the class the implementation-shaped verdict function gives (with or without the sentinel)
ConfVerdictX(o, x) == o.fresh \in {Verdict(x, o.g, o.cm, TRUE), Verdict(x, o.g, o.cm, FALSE)}
Conf_Verdict(o) == ConfVerdictX(o, Abs(o.m))
Conf_InSpace(o) == /\ InSpace(CoreOf(o.m), JOf(o.m))
                   /\ o.g.di \in ProgressDims.di /\ o.g.cr \in ProgressDims.cr /\ o.g.cph \in ProgressDims.cph
=============================================================================

INIT Init
NEXT Next
CONSTANTS
  Lookback = 4
  KeyMut = "none"
INVARIANT HistoryIndependent
CHECK_DEADLOCK FALSE

SPECIFICATION MCSpec
CONSTANTS
  BatchVariant = "code"
  Variant = "code"
  WInt = 1
  WDigest = 1
  Mode = "reduced"
  Size = "small"
  Kinds = {"P","V","T"}
INVARIANTS InvSingleField InvGivenNetwork
CHECK_DEADLOCK FALSE

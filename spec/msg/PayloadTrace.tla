----------------------------- MODULE PayloadTrace -----------------------------
(* Table validation of the REAL signing encoders against Payload.tla (property C14).
   The driver (harness/drivers/enc, TestSigned) calls Payload.MarshalForSigningWithValueKey ("P"),
   Payload.MarshalForSigning / MessageBuilder.PrepareSigningInputs ("PC"), TipSet.MarshalForSigning ("T")
   and SignatureBuilder.VRFToSign / VerifyTicket ("V") on families of field tuples and logs, per call,
   the fields and the bytes the code produced (twice, on independently built values).  It compares
   nothing.  This module consumes one row per step and, for the row just read, compares it with the
   earlier rows of its family:
     C14_*   the clauses of the property: identical fields => identical bytes; exactly one field
             different => different bytes                                   (failure = VIOLATION)
     Conf_*  the real bytes are exactly the layout of Payload.tla           (failure = spec drift)
   A row of a "star" family is compared with the family's base row only, other rows with every
   earlier row of the family.  cnt counts what was compared (vacuity guards of checks/C14.py).   *)
EXTENDS Payload, Json, TLCExt, TLC
CONSTANT TraceFile
VARIABLES l, obs, bad, cnt
tvars == <<l, obs, bad, cnt>>

T == ndJsonDeserialize(TraceFile)
row == obs[2]
line == obs[1]
SignedKinds == {"P", "PC", "T", "V"}

FieldTuple(r) == CASE r.ev = "P" -> <<r.nn, r.inst, r.round, r.phase, r.comm, r.pt, r.key>>
                   [] r.ev = "PC" -> <<r.nn, r.inst, r.round, r.phase, r.comm, r.pt, r.chain>>
                   [] r.ev = "T" -> <<r.epoch, r.comm, r.key, r.pt>>
                   [] r.ev = "V" -> <<r.nn, r.beacon, r.inst, r.round>>
NDiff(a, b) == Cardinality({i \in DOMAIN a : a[i] # b[i]})
PeersAt(j, r) == {i \in (IF r.star THEN {r.fam} ELSE r.fam..(j - 1)) : i < j /\ T[i].ev = r.ev}

\* ---- how two chains of a PC row differ (tipset = <<epoch, key, pt, comm>> indices)
\* same tipsets in a different order (accounting only; tipsets of the driver's chains are pairwise distinct)
IsPerm(a, b) == Len(a) = Len(b) /\ {a[i] : i \in DOMAIN a} = {b[i] : i \in DOMAIN b}
IsPrefix(a, b) == Len(a) < Len(b) /\ \A i \in DOMAIN a : a[i] = b[i]
ChainDiffClass(a, b) ==
  IF IsPrefix(a, b) \/ IsPrefix(b, a) THEN "len"
  ELSE IF Len(a) = Len(b) /\ Cardinality({i \in DOMAIN a : a[i] # b[i]}) = 1
       THEN LET i == CHOOSE i \in DOMAIN a : a[i] # b[i]
                d == {c \in 1..4 : a[i][c] # b[i][c]}
            IN IF Cardinality(d) # 1 THEN "tipset"
               ELSE IF d = {1} THEN "epoch" ELSE IF d = {2} THEN "key" ELSE IF d = {3} THEN "pt" ELSE "comm"
       ELSE IF IsPerm(a, b) THEN "order" ELSE "other"

\* ---- layouts of the spec for a logged row
SegsOfRow(r) ==
  CASE r.ev = "P" -> PayloadSegs([nn |-> r.nn, inst |-> r.inst, round |-> r.round, phase |-> r.phase,
                                   comm |-> r.comm, pt |-> r.pt, val |-> <<"key", r.key>>])
    [] r.ev = "PC" -> <<B(Tag), B(Sep), B(r.nn), B(Sep), B(<<r.phase>>), B(r.round), B(r.inst), B(r.comm),
                        (IF r.chain = <<>> THEN B(Zeros(32)) ELSE H(32, <<"root", r.chain>>)), B(r.pt)>>
    [] r.ev = "T" -> TipSetSegs([epoch |-> r.epoch, comm |-> r.comm, key |-> r.key, pt |-> r.pt])
    [] r.ev = "V" -> VrfSegs([nn |-> r.nn, beacon |-> r.beacon, inst |-> r.inst, round |-> r.round])
\* real bytes match a layout: total length, and every concrete segment verbatim at its offset
Matches(bytes, segs) ==
  LET n == Len(segs)
      W(i) == IF segs[i].k = "b" THEN Len(segs[i].v) ELSE segs[i].w
      Off[i \in 0..n] == IF i = 0 THEN 0 ELSE Off[i - 1] + W(i)
  IN /\ Off[n] = Len(bytes)
     /\ \A i \in 1..n : segs[i].k = "b" => SubSeq(bytes, Off[i - 1] + 1, Off[i]) = segs[i].v

TInit == l = 1 /\ obs = <<0, [ev |-> "none"], {}, {}>> /\ bad = {}
         /\ cnt = [rows |-> 0, same |-> 0, one |-> 0, epoch |-> 0, key |-> 0, pt |-> 0, comm |-> 0, len |-> 0, order |-> 0,
                   P |-> 0, PC |-> 0, T |-> 0, V |-> 0, maxchain |-> 0]

\* one pass over the peers of row j: <<rows with identical fields, rows differing in exactly one field>>
Compare(r, j) ==
  IF r.ev \notin SignedKinds THEN <<{}, {}>>
  ELSE LET ft == FieldTuple(r)
           nd == {<<i, NDiff(FieldTuple(T[i]), ft)>> : i \in PeersAt(j, r)}
       IN <<{p[1] : p \in {q \in nd : q[2] = 0}}, {p[1] : p \in {q \in nd : q[2] = 1}}>>
Bump(c, r, same, one) ==
  IF r.ev \notin SignedKinds THEN c
  ELSE LET cls == IF r.ev = "PC" THEN {<<i, ChainDiffClass(T[i].chain, r.chain)>> : i \in {i \in one : T[i].chain # r.chain}} ELSE {}
           NC(k) == Cardinality({p \in cls : p[2] = k})
       IN [c EXCEPT !.rows = @ + 1, !.same = @ + Cardinality(same), !.one = @ + Cardinality(one),
                    !.epoch = @ + NC("epoch"), !.key = @ + NC("key"), !.pt = @ + NC("pt"), !.comm = @ + NC("comm"),
                    !.len = @ + NC("len"), !.order = @ + NC("order"),
                    ![r.ev] = @ + 1,
                    !.maxchain = IF r.ev = "PC" /\ Len(r.chain) > @ THEN Len(r.chain) ELSE @]

TNext == /\ l <= Len(T)
         /\ l' = l + 1
         /\ LET r == T[l]
                cmp == Compare(r, l)
            IN /\ obs' = <<l, r, cmp[1], cmp[2]>>
               /\ cnt' = Bump(cnt, r, cmp[1], cmp[2])
         /\ (T[l].ev = "End" => PrintT(<<"VERIF_CNT", ToJson(cnt)>>))

\* ------------------------------------------------------------------ property monitors (C14)
Deterministic == /\ row.bytes = row.bytes2
                 /\ \A i \in obs[3] : T[i].bytes = row.bytes          \* identical fields
BindsEveryField == \A i \in obs[4] : T[i].bytes # row.bytes            \* exactly one field differs
C14_SignedBytesDeterministic == row.ev \in SignedKinds => Deterministic
C14_SignedBytesInjectivePerField == row.ev \in {"P", "PC"} => BindsEveryField
C14_TipSetBytesBindFields == row.ev = "T" => BindsEveryField
C14_VRFBindsFields == row.ev = "V" => BindsEveryField
\* ------------------------------------------------------------------ conformance
Conf_Layout == row.ev \in SignedKinds => LET segs == SegsOfRow(row) bytes == row.bytes IN Matches(bytes, segs)
Conf_End == row.ev = "End" => row.rows = cnt.rows

Clauses == {"C14_SignedBytesDeterministic", "C14_SignedBytesInjectivePerField", "C14_TipSetBytesBindFields",
            "C14_VRFBindsFields", "Conf_Layout", "Conf_End"}
Holds(c) == CASE c = "C14_SignedBytesDeterministic" -> C14_SignedBytesDeterministic
              [] c = "C14_SignedBytesInjectivePerField" -> C14_SignedBytesInjectivePerField
              [] c = "C14_TipSetBytesBindFields" -> C14_TipSetBytesBindFields
              [] c = "C14_VRFBindsFields" -> C14_VRFBindsFields
              [] c = "Conf_Layout" -> Conf_Layout
              [] c = "Conf_End" -> Conf_End
TStep == /\ TNext
         /\ LET nb == {c \in Clauses : ~(Holds(c))'} IN
              /\ bad' = bad \cup {<<l, c>> : c \in nb}
              /\ (nb = {} \/ Cardinality(bad) > 2000 \/ PrintT(<<"VERIF_BAD", l, nb>>))
TSpec == TInit /\ [][TStep]_tvars
=============================================================================

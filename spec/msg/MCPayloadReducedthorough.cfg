SPECIFICATION MCSpec
CONSTANTS
  BatchVariant = "code"
  Variant = "code"
  WInt = 1
  WDigest = 1
  Mode = "reduced"
  Size = "full"
  Kinds = {"P","V","T"}
INVARIANTS InvSingleField InvGivenNetwork
CHECK_DEADLOCK FALSE

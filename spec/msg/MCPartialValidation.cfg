INIT Init
NEXT Next
CONSTANTS
  Lookback = 4
  Mut = "none"
  EmitRows = TRUE
  NSlices = 32
  Slice = 1
INVARIANTS D_Design Emit
CHECK_DEADLOCK FALSE

-------------------------- MODULE PartialValidation --------------------------
(* Two-stage validation (gpbft/validator.go PartiallyValidateMessage + FullyValidateMessage, completion by
   pmsg.inferJustificationVoteValue) against one-shot validation of the completed message (property C13).

   A point of the space is an original message m (coordinates of Validator.tla), the announced value key
     ak: "match" (key of m's value, what pmsg.ToPartialGMessage produces) | "zero" | "other" (key of chain "other"),
   the chain the partial message is completed with
     cc: "orig" (m's value) | "other" | "bot" | "bad" (malformed),
   and pj: the partial message carries the justification with its value stripped ("strip", as ToPartialGMessage
   does), with the original justification value ("keep") or with the chain "other" in that field ("junk"); a peer is free
   to send either, the aggregate is unchanged.
   Keys are chain names ("bot" = zero key).  The partial message always carries the zero chain as vote value. *)
EXTENDS Validator

CONSTANT Mut   \* "none" = as coded; named deviations for the non-vacuity runs: "nokeycheck", "inferall"

AKs == {"match", "zero", "other"}
CCs == {"orig", "other", "bot", "bad"}
PJs == {"strip", "keep", "junk"}
KeyOf(ak, x) == CASE ak = "match" -> x.v [] ak = "zero" -> "bot" [] OTHER -> "other"
ChainOf(cc, x) == IF cc = "orig" THEN x.v ELSE cc
CarriedJV(pj, x) == CASE pj = "keep" -> x.jv [] pj = "junk" -> "other" [] OTHER -> "bot"

\* ---------------------------------------------------------------- stage 1: validateMessageWithVoteValueKey, partial = TRUE
PartialJustificationE(x, e, pjv) ==
  /\ e.ok /\ RoundAccepted(e, x.jround, FALSE)
  /\ x.jS = "strong"
  /\ x.jaggv = e.key /\ x.jaggby = "claimed"             \* aggregate verified over the payload with the EXPECTED key (zero or announced)
PartialJustification(x, K, pjv) ==
  /\ x.jph # "none" /\ x.jinst = "same" /\ x.jsupp = "same"
  /\ pjv # "bad"                                         \* carried justification value must be a well-formed chain
  /\ PartialJustificationE(x, ExpectK(x, K), pjv)
PartialContent(x, K, pjv, cm) ==
  LET bot == K = "bot" IN                                \* voteForBottom: partial /\ valueKey.IsZero()
  IF ~cm THEN "NoCommittee"
  ELSE IF x.snd # "member" THEN "Invalid"
  ELSE IF x.ph = "QUALITY" /\ (x.r # 0 \/ bot) THEN "Invalid"
  ELSE IF x.ph = "CONVERGE" /\ (x.r = 0 \/ bot \/ x.tk # "ok") THEN "Invalid"
  ELSE IF x.ph = "DECIDE" /\ (x.r # 0 \/ bot) THEN "Invalid"
  ELSE IF x.ph \notin MsgPhases THEN "Invalid"
  ELSE IF ~(x.sigv = K /\ x.sigby = "sender") THEN "Invalid"        \* signature over the payload with the announced key
  ELSE IF ~(x.ph = "QUALITY" \/ (x.ph = "PREPARE" /\ x.r = 0) \/ (x.ph = "COMMIT" /\ bot))
       THEN (IF PartialJustification(x, K, pjv) THEN "OK" ELSE "Invalid")
  ELSE IF x.jph # "none" THEN "Invalid"
  ELSE "OK"
PartialClass(x, K, pjv, g, cm) == LET p == ByProgress(x, g) IN IF p # "ok" THEN p ELSE PartialContent(x, K, pjv, cm)

\* ---------------------------------------------------------------- completion: pgmsg.Vote.Value = C; inferJustificationVoteValue
InferJV(x, C, pjv) ==
  IF \/ (x.ph \in {"CONVERGE", "PREPARE", "COMMIT"} /\ x.jph = "PREPARE")
     \/ (x.ph = "DECIDE" /\ x.jph = "COMMIT")
     \/ (Mut = "inferall" /\ x.ph \in MsgPhases)
  THEN C ELSE pjv

\* ---------------------------------------------------------------- stage 2: FullyValidateMessage, validator.go:117-192
FullClass(x, K, C, jv2, g) ==
  IF C = "bad" THEN "Invalid"
  ELSE IF K # C /\ Mut # "nokeycheck" THEN "Invalid"                  \* announced key must be the key of the completing chain
  ELSE IF ByProgress(x, g) # "ok" THEN ByProgress(x, g)
  ELSE IF K = "bot" /\ (C # "bot" \/ (x.jph # "none" /\ jv2 # "bot")) THEN "Invalid"
  ELSE IF x.jph = "none" THEN "OK"
  ELSE IF x.ph \in {"CONVERGE", "PREPARE"} /\ x.jph = "COMMIT" THEN (IF jv2 = "bot" THEN "OK" ELSE "Invalid")
  ELSE IF x.ph \in {"CONVERGE", "PREPARE", "COMMIT"} /\ x.jph = "PREPARE" THEN (IF jv2 = C THEN "OK" ELSE "Invalid")
  ELSE IF x.ph = "DECIDE" /\ x.jph = "COMMIT" THEN (IF jv2 = C THEN "OK" ELSE "Invalid")
  ELSE "Invalid"

\* the completed message, in the absolute coordinates of Validator.tla (signature and aggregate are the original bytes)
Completed(x, C, jv2) == [x EXCEPT !.v = C, !.jv = IF x.jph = "none" THEN C ELSE jv2]

\* one point
Point(m, ak, cc, pj) ==
  LET x == Abs(m) IN
  [x |-> x, K |-> KeyOf(ak, x), C |-> ChainOf(cc, x), pjv |-> CarriedJV(pj, x),
   jv2 |-> InferJV(x, ChainOf(cc, x), CarriedJV(pj, x))]
TwoStageP(p, g, cm) == PartialClass(p.x, p.K, p.pjv, g, cm) = "OK" /\ FullClass(p.x, p.K, p.C, p.jv2, g) = "OK"
OneShotP(p, g, cm) == Verdict(Completed(p.x, p.C, p.jv2), g, cm, FALSE)
\* strip with the production ToPartialGMessage, complete with the original chain
RoundTripModel(x) == x.jph = "none" \/ InferJV(x, x.v, "bot") = x.jv

\* ---------------------------------------------------------------- clauses of C13 over one observation
\* o = [m, ak, cc, pj, g, cm,  ts = set of BOOLEAN (two-stage acceptance seen: fresh + warm histories),
\*      os = set of BOOLEAN (one-shot acceptance of the completed message seen), rt = round trip reproduced the bytes,
\*      pcf, fcf, ocf = classes returned on fresh participants by the partial stage, the full stage ("-" if not reached), one-shot]
C13P_SameAcceptance(o, p) == p.K = p.C => Cardinality(o.ts \cup o.os) = 1
C13P_NoForeignChain(o, p) == p.K # p.C => TRUE \notin o.ts
C13P_NoForeignJustification(o, p) == TRUE \in o.ts => AllRules(Completed(p.x, p.C, p.jv2))
C13P_RoundTrip(o, p) == AllRules(p.x) => o.rt
ConfP_Partial(o, p) == o.pcf = PartialClass(p.x, p.K, p.pjv, o.g, o.cm)
ConfP_Full(o, p) == o.fcf = IF o.pcf = "OK" THEN FullClass(p.x, p.K, p.C, p.jv2, o.g) ELSE "-"
ConfP_OneShot(o, p) == o.ocf = OneShotP(p, o.g, o.cm)
ConfP_InSpace(o) == /\ InSpace(CoreOf(o.m), JOf(o.m)) /\ o.ak \in AKs /\ o.cc \in CCs /\ o.pj \in PJs
                    /\ o.g.di \in ProgressDims.di /\ o.g.cr \in ProgressDims.cr /\ o.g.cph \in ProgressDims.cph
=============================================================================

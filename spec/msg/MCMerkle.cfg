SPECIFICATION MCSpec
CONSTANTS
  BatchVariant = "code"
  MaxN = 128
  EmitN = 128
  EmitFile = "shapes.ndjson"
INVARIANTS InvBatchEqualsTree InvLeaves InvLength
CHECK_DEADLOCK FALSE

SPECIFICATION Spec
CONSTANTS
  InferOnDiscovery = TRUE
  IndexByInstance = TRUE
  PruneInclusive = FALSE
  Stage2ChecksKey = TRUE
  Insts = {10, 11}
  ChainsC <- ChainsPrefix
  Senders = {1, 2}
  JKs = {"val"}
  Cap = 1
  CapOut = 2
  MaxArr = 12
  PruneAt = {10, 11, 12}
  Tamper = FALSE
  WithBroadcast = TRUE
  HistOn = TRUE
  HistLen = 28
  WithLookup = TRUE
INVARIANTS
  C13_MgrNoForeignChain
  C13_MgrSameAcceptance
  C13_MgrRoundTrip
  C13_MgrComplete
  Conf_AtMostOnce
  Conf_NoPruned
  Conf_Bounded
  Conf_IndexSound
  HistDone
CHECK_DEADLOCK FALSE

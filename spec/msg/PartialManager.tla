--------------------------- MODULE PartialManager ---------------------------
(* The partial message manager of go-f3 (pmsg/partial_msg.go), as coded: the production implementation of
   "completing a partially validated message once its chain is known" (property C13).

   One action per event the manager's goroutines handle, parameters = what a driver can log:
     Complete(m)   CompleteMessage: the host's pubsub validator asks whether the chain of wire message m is known
                   (chain exchange GetChainByInstance: wanted cache, then discovered cache -> moved to wanted and the
                   listener notified, else a placeholder is filed)
     Arrive(id,m)  stage 1 accepted m (or a faulty caller hands it over anyway: m.fed) -> BufferPartialMessage ->
                   run loop: PeekOrAdd into the per-instance LRU buffer (eviction of the oldest), auxiliary index
                   (instance, announced key) -> slots appended
     Notify(i,c)   NotifyChainDiscovered -> run loop: every slot indexed under (i, key(c)) that is still buffered is
                   completed with c (vote value := c, justification value inferred), queued, removed; index list deleted
     Admit(i,c)    a chain reaches the chain exchange from the network (cacheAsDiscoveredChain: nobody is notified)
     Own(i,c)      BroadcastChain -> broadcast goroutine: newer instance -> current, published at once;
                   same instance -> current only if the current chain does not have c as a prefix (not published);
                   older -> dropped.  Publishing files every prefix as wanted and notifies the listener of the new ones.
     Tick          re-broadcast of the current chain
     Prune(n)      RemoveMessagesBeforeInstance -> run loop: buffers, index and chain exchange caches below n dropped
     Take / Drain  the consumer reads the completed-message queue (bounded: when full the oldest is dropped)

   Deliberately as coded (each visible in a trace of the real code):
   * the auxiliary index is NOT cleaned when the LRU buffer evicts a message.  A slot (sender, instance, round,
     phase) that was evicted and then announced again under ANOTHER key is still listed under the first key, so
     the first key's chain completes the second message: the manager emits a message whose chain key differs
     from its announced key (MgrEmitKeyStrict is refuted on this model).  Only stage 2 (FullyValidateMessage re-checks
     key(chain) = announced key) keeps such a message from being admitted: Stage2ChecksKey = FALSE is refuted.
   * a buffered message whose slot is already taken is dropped (first wins), whatever its key.
   * a message of a pruned instance that arrives later is buffered again.

   Clauses of C13 (names starting with C13) are stated on what the two-stage path admits, everything else is Conf.   *)
EXTENDS Naturals, Sequences, FiniteSets, TLC

CONSTANTS
  InferOnDiscovery,   \* TRUE as coded: the discovery loop infers the justification value after setting the vote value
  IndexByInstance,    \* TRUE as coded: the auxiliary index is kept per instance
  PruneInclusive,     \* FALSE as coded: instances strictly below n are pruned
  Stage2ChecksKey     \* TRUE as coded: FullyValidateMessage re-checks that the chain has the announced key

VARIABLES
  cfg,      \* [cap |-> maxBuffMsgPerInstance, capOut |-> completedMsgsBufSize]
  buf,      \* instance -> sequence of arrival ids, oldest first          (pmByInstance)
  idx,      \* <<instance, key>> -> sequence of slots                     (pmkByInstanceByChainKey)
  cxw,      \* <<instance, key>> -> "ph" | "ch"                           (chain exchange: wanted cache)
  cxd,      \* set of <<instance, key>>                                   (chain exchange: discovered cache)
  cur,      \* [i, c] the chain being re-broadcast; c = <<>>: none yet
  out,      \* the completed-message queue: sequence of emissions [mid, ck, jv]
  reg,      \* history: arrival id -> message
  log,      \* history: every emission ever made, in order
  gone,     \* history: arrival ids that sat in a buffer when their instance was pruned
  excused,  \* history: arrival ids that SOME admissible drop policy may have dropped (see C13_MgrComplete)
  cnt,      \* history: instance -> number of messages handed to the manager
  late,     \* arrival ids the last event had to complete and did not
  last      \* what the last Complete returned
mvars == <<cfg, buf, idx, cxw, cxd, cur, out, reg, log, gone, excused, cnt, late, last>>

(* A chain is the sequence of its tipset ids, <<>> the zero chain; the key of a chain is the chain (ECChain.Key is
   assumed injective).  A slot is <<instance, sender, round, phase>> (opaque here).
   A message m = [inst, slot, ak (announced key), oc (the chain the sender signed), jk (what its justification is for:
   "none" | "val" (the vote value) | "bot"), p1 (stage 1 accepted it), fed (it was handed to the manager)]. *)
NoCur == [i |-> 0, c |-> <<>>]
NoLast == [found |-> FALSE, ck |-> <<>>, jv |-> "-"]

Has(f, x) == x \in DOMAIN f
Get(f, x, d) == IF x \in DOMAIN f THEN f[x] ELSE d
Put(f, x, v) == [y \in DOMAIN f \cup {x} |-> IF y = x THEN v ELSE f[y]]
Without(f, S) == [y \in DOMAIN f \ S |-> f[y]]
RemoveAt(q, n) == [j \in 1..(Len(q) - 1) |-> IF j < n THEN q[j] ELSE q[j + 1]]
PrefixSet(c) == {SubSeq(c, 1, n) : n \in 1..Len(c)}
Prefixes(c) == [n \in 1..Len(c) |-> SubSeq(c, 1, Len(c) - n + 1)]       \* longest first, as AllPrefixes is walked
HasPrefix(c, p) == c # <<>> /\ p # <<>> /\ Len(p) <= Len(c) /\ SubSeq(c, 1, Len(p)) = p    \* ECChain.HasPrefix

\* ------------------------------------------------------------------ the run loop (pure functions on [buf, idx, ems])
IK(i, k) == IF IndexByInstance THEN <<i, k>> ELSE <<0, k>>
PosOf(R, q, s) == {n \in 1..Len(q) : R[q[n]].slot = s}
OrigJv(jk) == CASE jk = "none" -> "none" [] jk = "bot" -> "zero" [] jk = "val" -> "same"
\* inferJustificationVoteValue: a PREPARE (resp. COMMIT for DECIDE) justification gets the vote value; one for bottom stays zero
JvAfter(jk, infer) == IF jk = "val" /\ ~infer THEN "zero" ELSE OrigJv(jk)

RECURSIVE Sweep(_, _, _, _)
Sweep(R, q, ents, acc) ==        \* for messageKey in partialMessageKeys: if buffer.Get(messageKey) ... buffer.Remove
  IF ents = <<>> THEN <<q, acc>>
  ELSE LET h == PosOf(R, q, Head(ents)) IN
       IF h = {} THEN Sweep(R, q, Tail(ents), acc)
       ELSE LET n == CHOOSE n \in h : TRUE IN Sweep(R, RemoveAt(q, n), Tail(ents), Append(acc, q[n]))

Discover(R, M, i, c) ==
  IF ~(Has(M.buf, i) /\ Has(M.idx, IK(i, c))) THEN M
  ELSE LET sw == Sweep(R, M.buf[i], M.idx[IK(i, c)], <<>>) IN
       [buf |-> Put(M.buf, i, sw[1]), idx |-> Without(M.idx, {IK(i, c)}),
        ems |-> M.ems \o [j \in 1..Len(sw[2]) |-> [mid |-> sw[2][j], ck |-> c, jv |-> JvAfter(R[sw[2][j]].jk, InferOnDiscovery)]]]

RECURSIVE DiscoverAll(_, _, _, _)
DiscoverAll(R, M, i, cs) == IF cs = <<>> THEN M ELSE DiscoverAll(R, Discover(R, M, i, Head(cs)), i, Tail(cs))

Buffer(R, M, mid) ==
  LET m == R[mid]
      q == Get(M.buf, m.inst, <<>>) IN
  IF PosOf(R, q, m.slot) # {} THEN [M EXCEPT !.buf = Put(M.buf, m.inst, q)]           \* duplicate slot: first wins
  ELSE LET q1 == Append(q, mid)
           q2 == IF Len(q1) > cfg.cap THEN Tail(q1) ELSE q1                           \* LRU eviction; the index keeps the slot
           ik == IK(m.inst, m.ak) IN
       [M EXCEPT !.buf = Put(M.buf, m.inst, q2), !.idx = Put(M.idx, ik, Append(Get(M.idx, ik, <<>>), m.slot))]

Below(i, n) == IF PruneInclusive THEN i <= n ELSE i < n
PruneM(M, n) == [M EXCEPT !.buf = Without(M.buf, {i \in DOMAIN M.buf : Below(i, n)}),
                          !.idx = Without(M.idx, {p \in DOMAIN M.idx : IndexByInstance /\ Below(p[1], n)})]

\* ------------------------------------------------------------------ the chain exchange as the manager sees it ([w, d]; no eviction)
IsCh(C, i, k) == Has(C.w, <<i, k>>) /\ C.w[<<i, k>>] = "ch"
CxLookup(C, i, k) ==             \* <<C', found, listener notified>>
  IF IsCh(C, i, k) THEN <<C, TRUE, FALSE>>
  ELSE IF <<i, k>> \in C.d THEN <<[w |-> Put(C.w, <<i, k>>, "ch"), d |-> C.d \ {<<i, k>>}], TRUE, TRUE>>
  ELSE <<[w |-> IF Has(C.w, <<i, k>>) THEN C.w ELSE Put(C.w, <<i, k>>, "ph"), d |-> C.d], FALSE, FALSE>>
CxAdmit(C, i, c) ==              \* placeholders are replaced, unknown prefixes go to the discovered cache; nobody is notified
  [w |-> [x \in DOMAIN C.w |-> IF x[1] = i /\ x[2] \in PrefixSet(c) THEN "ch" ELSE C.w[x]],
   d |-> C.d \cup {<<i, p>> : p \in {p \in PrefixSet(c) : ~Has(C.w, <<i, p>>)}}]
CxNewlyWanted(C, i, c) == SelectSeq(Prefixes(c), LAMBDA p : ~IsCh(C, i, p))
CxPublish(C, i, c) ==
  [w |-> [x \in DOMAIN C.w \cup {<<i, p>> : p \in PrefixSet(c)} |-> IF x[1] = i /\ x[2] \in PrefixSet(c) THEN "ch" ELSE C.w[x]], d |-> C.d]
CxPrune(C, n) == [w |-> Without(C.w, {x \in DOMAIN C.w : x[1] < n}), d |-> {x \in C.d : x[1] >= n}]

\* ------------------------------------------------------------------ actions
MS == [buf |-> buf, idx |-> idx, ems |-> <<>>]
CS == [w |-> cxw, d |-> cxd]
Push(q, ems) == LET a == q \o ems IN IF Len(a) > cfg.capOut THEN SubSeq(a, Len(a) - cfg.capOut + 1, Len(a)) ELSE a
Commit(M, C) == /\ buf' = M.buf /\ idx' = M.idx /\ out' = Push(out, M.ems) /\ log' = log \o M.ems
                /\ cxw' = C.w /\ cxd' = C.d

MgrInit(c) ==
  /\ cfg = c /\ buf = <<>> /\ idx = <<>> /\ cxw = <<>> /\ cxd = {} /\ cur = NoCur /\ out = <<>>
  /\ reg = <<>> /\ log = <<>> /\ gone = {} /\ excused = {} /\ cnt = <<>> /\ late = {} /\ last = NoLast

EmittedIds == {log[j].mid : j \in 1..Len(log)}
Ovf(i) == Get(cnt, i, 0) > cfg.cap
(* C13_MgrComplete, the obligation: when the listener is told that the chain of (i, key) is known, every message that
   stage 1 accepted, that was handed to the manager, that announced that key at that instance and that has not been
   completed yet, is completed with that chain now - unless a drop policy may have removed it.  The excuses do not
   depend on WHICH policy the manager uses: the instance ever received more messages than its buffer holds (any
   eviction order), an instance above its own was pruned after it arrived, or another message claimed its slot. *)
Must(i, c) == {x \in DOMAIN reg : reg[x].fed /\ reg[x].p1 /\ reg[x].inst = i /\ reg[x].ak = c /\ c # <<>>
                                  /\ x \notin excused /\ ~Ovf(i) /\ x \notin EmittedIds}
Right(R, ems) == {ems[j].mid : j \in {j \in 1..Len(ems) : ems[j].ck = R[ems[j].mid].ak}}

Arrive(mid, m) ==
  /\ mid \notin DOMAIN reg
  /\ LET R == Put(reg, mid, m)
         tw == {x \in DOMAIN reg : reg[x].fed /\ reg[x].slot = m.slot} IN
       /\ reg' = R
       /\ Commit(IF m.fed THEN Buffer(R, MS, mid) ELSE MS, CS)
       /\ cnt' = IF m.fed THEN Put(cnt, m.inst, Get(cnt, m.inst, 0) + 1) ELSE cnt
       /\ excused' = IF m.fed /\ tw # {} THEN excused \cup tw \cup {mid} ELSE excused
  /\ late' = {} /\ last' = NoLast /\ UNCHANGED <<cfg, cur, gone>>

Notify(i, c) ==
  LET M == Discover(reg, MS, i, c) IN
  /\ Commit(M, CS)
  /\ late' = Must(i, c) \ Right(reg, M.ems)
  /\ last' = NoLast /\ UNCHANGED <<cfg, cur, reg, gone, excused, cnt>>

Complete(m) ==
  /\ IF m.ak = <<>> THEN Commit(MS, CS) /\ last' = [found |-> TRUE, ck |-> <<>>, jv |-> "asis"]
     ELSE LET r == CxLookup(CS, m.inst, m.ak) IN
          /\ Commit(IF r[3] THEN Discover(reg, MS, m.inst, m.ak) ELSE MS, r[1])
          /\ last' = IF r[2] THEN [found |-> TRUE, ck |-> m.ak, jv |-> JvAfter(m.jk, TRUE)] ELSE NoLast
  /\ late' = {} /\ UNCHANGED <<cfg, cur, reg, gone, excused, cnt>>

Admit(i, c) ==
  /\ Commit(MS, CxAdmit(CS, i, c))
  /\ late' = {} /\ last' = NoLast /\ UNCHANGED <<cfg, cur, reg, gone, excused, cnt>>

Publish(i, c) == Commit(DiscoverAll(reg, MS, i, CxNewlyWanted(CS, i, c)), CxPublish(CS, i, c))
Own(i, c) ==
  /\ IF c = <<>> THEN Commit(MS, CS) /\ cur' = cur
     ELSE IF cur.c = <<>> \/ i > cur.i THEN Publish(i, c) /\ cur' = [i |-> i, c |-> c]
     ELSE IF i = cur.i THEN Commit(MS, CS) /\ cur' = (IF HasPrefix(cur.c, c) THEN cur ELSE [i |-> i, c |-> c])
     ELSE Commit(MS, CS) /\ cur' = cur
  /\ late' = {} /\ last' = NoLast /\ UNCHANGED <<cfg, reg, gone, excused, cnt>>

Tick ==
  /\ IF cur.c = <<>> THEN Commit(MS, CS) ELSE Publish(cur.i, cur.c)
  /\ late' = {} /\ last' = NoLast /\ UNCHANGED <<cfg, cur, reg, gone, excused, cnt>>

Prune(n) ==
  /\ Commit(PruneM(MS, n), CxPrune(CS, n))
  /\ gone' = gone \cup UNION {{buf[i][j] : j \in 1..Len(buf[i])} : i \in {i \in DOMAIN buf : Below(i, n)}}
  /\ excused' = excused \cup {x \in DOMAIN reg : reg[x].inst < n}
  /\ late' = {} /\ last' = NoLast /\ UNCHANGED <<cfg, cur, reg, cnt>>

Take ==
  /\ out # <<>> /\ out' = Tail(out)
  /\ UNCHANGED <<cfg, buf, idx, cxw, cxd, cur, reg, log, gone, excused, cnt, late, last>>
Drain ==
  /\ out' = <<>>
  /\ UNCHANGED <<cfg, buf, idx, cxw, cxd, cur, reg, log, gone, excused, cnt, late, last>>

\* ------------------------------------------------------------------ what the two stages and one-shot validation say (abstract)
Emitted == {log[j] : j \in 1..Len(log)}
\* FullyValidateMessage on an emitted message: key of the chain = announced key; justification value as the phase demands
Stage2(e) == (Stage2ChecksKey => e.ck = reg[e.mid].ak) /\ e.jv = OrigJv(reg[e.mid].jk)
\* one-shot validation of the message completed AS SPECIFIED with chain c: the signatures cover the original value
OneShot(m, c) == m.p1 /\ m.ak = m.oc /\ c = m.oc

\* ------------------------------------------------------------------ clauses of C13
\* a chain whose key differs from the announced key, or a justification for a different value, is never admitted
C13_MgrNoForeignChain ==
  /\ \A e \in Emitted : (reg[e.mid].p1 /\ Stage2(e)) => (e.ck = reg[e.mid].ak /\ e.jv = OrigJv(reg[e.mid].jk))
  /\ last.found => last.jv \in {"asis", "none", "zero", "same"}
\* the two-stage path through the manager accepts exactly what one-shot validation of the completed message accepts
C13_MgrSameAcceptance ==
  \A e \in Emitted : reg[e.mid].p1 => (Stage2(e) <=> (OneShot(reg[e.mid], e.ck) /\ e.ck = reg[e.mid].ak))
\* strip + complete with the original chain reproduces the original message
C13_MgrRoundTrip ==
  \A e \in Emitted : LET m == reg[e.mid] IN (m.p1 /\ m.ak = m.oc /\ e.ck = m.oc) => e.jv = OrigJv(m.jk)
\* ... and the completion happens once the chain is known
C13_MgrComplete == late = {}

\* manager-level form of "no foreign chain": true of every emission, admitted or not.  REFUTED on the as-coded model.
MgrEmitKeyStrict == \A e \in Emitted : e.ck = reg[e.mid].ak

\* ------------------------------------------------------------------ conformance-level invariants of the design
Conf_AtMostOnce == \A a, b \in 1..Len(log) : a # b => log[a].mid # log[b].mid
Conf_NoPruned == \A e \in Emitted : e.mid \notin gone
Conf_Bounded == (\A i \in DOMAIN buf : Len(buf[i]) <= cfg.cap) /\ Len(out) <= cfg.capOut
Conf_IndexSound == \A p \in DOMAIN idx : idx[p] # <<>> /\ (IndexByInstance => Has(buf, p[1]))
=============================================================================

SPECIFICATION MCSpec
CONSTANTS
  Tier = "thorough"
  EmitFile = "cases.ndjson"
INVARIANTS InvGen
CHECK_DEADLOCK FALSE

SPECIFICATION Spec
CONSTANTS
  InferOnDiscovery = TRUE
  IndexByInstance = TRUE
  PruneInclusive = FALSE
  Stage2ChecksKey = TRUE
  Insts = {10, 11}
  ChainsC <- ChainsPrefix
  Senders = {1}
  JKs = {"val"}
  Cap = 2
  CapOut = 2
  MaxArr = 2
  PruneAt = {11}
  Tamper = FALSE
  WithBroadcast = TRUE
  HistOn = FALSE
  HistLen = 0
  WithLookup = FALSE
INVARIANTS
  C13_MgrNoForeignChain
  C13_MgrSameAcceptance
  C13_MgrRoundTrip
  C13_MgrComplete
  Conf_AtMostOnce
  Conf_NoPruned
  Conf_Bounded
  Conf_IndexSound
CHECK_DEADLOCK FALSE

------------------------------- MODULE Merkle -------------------------------
(* Chain keys of go-f3 as *shapes* over an injective symbolic hash (property C14, clause
   "the key identifying a chain is the same whether computed for the chain directly, for all its
   prefixes in batch, or read from cached prefix objects").

   A digest is a term:   <<"Z">>            the all-zero digest (padding of an unbalanced tree)
                         <<"L", i>>         keccak(0x01 || value_i)         (leafHash)
                         <<"N", a, b>>      keccak(0x00 || a || b)          (internalHash)
   Two terms are equal iff they are the same term: that is exactly "the hash is injective and the
   leaf/internal domains are separated".  The driver (harness/drivers/enc) interprets the terms
   with the real keccak and compares with what merkle.Tree / merkle.BatchTree / ECChain.Key /
   KeysForPrefixes / AllPrefixes / Prefix return; the verdict on those rows is MerkleTrace.tla's.

   Tree      transcribes merkle.buildTree            (merkle/merkle.go:102-143)
   BatchRoot transcribes the loop of merkle.BatchTree (merkle/merkle.go:152-240); the memo table of
             buildTreeMemoized is semantically transparent (pure function of depth,start,end) and
             is not modelled as state.                                                          *)
EXTENDS Naturals, Sequences, FiniteSets

CONSTANT BatchVariant   \* "code" | named deviations used as non-vacuity mutants of the design check

Z == <<"Z">>
L(i) == <<"L", i>>
N(a, b) == <<"N", a, b>>

Min(a, b) == IF a < b THEN a ELSE b
RECURSIVE Pow2(_)
Pow2(d) == IF d = 0 THEN 1 ELSE 2 * Pow2(d - 1)
\* depth(length) = bits.Len(uint(length) - 1) = least d with 2^d >= length   (length >= 1)
RECURSIVE DepthFrom(_, _)
DepthFrom(n, d) == IF Pow2(d) >= n THEN d ELSE DepthFrom(n, d + 1)
Depth(n) == DepthFrom(n, 0)

\* buildTree(depth, values[lo:hi])
RECURSIVE Build(_, _, _)
Build(d, lo, hi) ==
  IF hi = lo THEN Z
  ELSE IF d = 0 THEN L(lo)
  ELSE LET split == Min(Pow2(d - 1), hi - lo)
       IN N(Build(d - 1, lo, lo + split), Build(d - 1, lo + split, hi))

Tree(n) == IF n = 0 THEN Z ELSE Build(Depth(n), 0, n)

\* buildTreeMemoized(targetDepth, startIndex, endIndex): same recursion, split computed as an index
RECURSIVE BuildM(_, _, _)
BuildM(d, s, e) ==
  IF e = s THEN Z
  ELSE IF d = 0 THEN L(s)
  ELSE LET cap == Pow2(d - 1)
           sp0 == s + cap
           sp == IF BatchVariant = "splitNoClamp" THEN sp0 ELSE IF sp0 > e THEN e ELSE sp0
       IN IF sp > e THEN <<"PANIC">> ELSE N(BuildM(d - 1, s, sp), BuildM(d - 1, sp, e))

\* roots[k] of BatchTree: left subtree = roots[2^(depth(k)-1)] reused, right computed
RECURSIVE BatchRoot(_)
BatchRoot(k) ==
  IF k = 1 THEN L(0)
  ELSE LET d == IF BatchVariant = "depthOffByOne" THEN Depth(k + 1) ELSE Depth(k)
           s == Pow2(d - 1)      \* s < k in the code variant (s <= k in the mutant: roots[k] is still zero then)
           left == IF s >= k THEN Z ELSE BatchRoot(s)
       IN N(left, BuildM(d - 1, s, k))
BatchTree(n) == [k \in 1..n |-> BatchRoot(k)]

\* ------------------------------------------------------------------ what the key must bind
RECURSIVE Leaves(_)
Leaves(t) == IF t[1] = "L" THEN <<t[2]>> ELSE IF t[1] = "N" THEN Leaves(t[2]) \o Leaves(t[3]) ELSE <<>>
RECURSIVE Count(_)   \* <<#leaves, #internal, #zero>>
Count(t) == IF t[1] = "L" THEN <<1, 0, 0>>
            ELSE IF t[1] = "Z" THEN <<0, 0, 1>>
            ELSE LET a == Count(t[2]) b == Count(t[3]) IN <<a[1] + b[1], a[2] + b[2] + 1, a[3] + b[3]>>

\* clauses of the design check (MCMerkle)
\* BatchTree(n)[k] is BatchRoot(k) for every n >= k (the loop of merkle.BatchTree computes roots[k] from values[0..k)
\* only), so "BatchTree(n)[k] = Tree(k) for all 1 <= k <= n <= N" is  BatchRoot(k) = Tree(k) for all k <= N
BatchEqualsTree(n) == BatchRoot(n) = Tree(n) /\ DOMAIN BatchTree(n) = 1..n
KeyBindsEveryLeafInOrder(n) == Leaves(Tree(n)) = [i \in 1..n |-> i - 1]
KeyBindsLength(n) == \A k \in 1..n : k # n => Tree(k) # Tree(n)
=============================================================================

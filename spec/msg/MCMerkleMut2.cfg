SPECIFICATION MCSpec
CONSTANTS
  BatchVariant = "splitNoClamp"
  MaxN = 12
  EmitN = 128
  EmitFile = ""
INVARIANTS InvBatchEqualsTree InvLeaves InvLength
CHECK_DEADLOCK FALSE

SPECIFICATION MCSpec
CONSTANTS
  BatchVariant = "code"
  Variant = "tsNoPT"
  WInt = 8
  WDigest = 32
  Mode = "real"
  Size = "small"
  Kinds = {"T"}
INVARIANTS InvSingleField
CHECK_DEADLOCK FALSE

SPECIFICATION MCSpec
CONSTANTS
  BatchVariant = "code"
  Variant = "code"
  WInt = 1
  WDigest = 1
  Mode = "reduced"
  Size = "small"
  Kinds = {"P"}
INVARIANTS InvFull
CHECK_DEADLOCK FALSE

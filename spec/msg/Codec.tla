-------------------------------- MODULE Codec --------------------------------
(* Structural model of the CBOR tuple codecs of go-f3 (property C14, clauses "every wire and storage
   type decodes to an equal value after encoding (with and without compression), encoding is
   deterministic, and decoding ... truncated, oversized or over-expanding input returns an error
   without panicking or allocating beyond the documented limits").

   Schema: per type the ordered field list of its tuple encoding with the per-field limits of
   gpbft/cbor_gen.go, certs/cbor_gen.go, certexchange/cbor_gen.go, chainexchange/cbor_gen.go,
   certstore/cbor_gen.go (and of cbor-gen, go-bitfield, go-state-types/big for the leaf types).
   From the schema TLC generates
     * boundary VALUES  (record of "dimensions": chain length 0/1/2/128, tipset key 1/38/760 bytes,
       signature 0/1/96 bytes, justification nil/present, bitfield empty/small/wide, integer
       magnitude zero/small/max/negative, table entries 0/1/2/8192), one dimension at a time around
       a default plus all-min and all-max;
     * structural CORRUPTIONS of the encoding of a value, addressed by the path of a CBOR item:
       truncate before / inside / after the header of every item, rewrite a length header past its
       limit (limit+1, 10*limit, 2^32, 2^63, 2^64-1; wrong field count of a tuple), replace the major
       type of an item by every major the field does not accept, and
     * OVER-LIMIT values: an item really resized (with content) to limit+1
       (761-byte key, 97-byte signature, 33/31-byte commitments, 8193 entries, 129-tipset chain);
     * ZSTD frames: valid encoding padded to exactly / beyond the 1 MiB decode cap, frame headers
       claiming a huge content size, truncated frames, bad magic.
   The driver (harness/drivers/enc, TestCodec) builds the values, applies the corruptions to the
   bytes produced by the REAL MarshalCBOR, runs the REAL UnmarshalCBOR / encoding.CBOR / encoding.ZSTD
   and records what happened; CodecTrace.tla judges the rows.
   NOT covered (DESIGN.md section 7): arbitrary byte strings from coverage-guided mutation.        *)
EXTENDS Naturals, Sequences, FiniteSets

CONSTANT Tier      \* "quick" | "thorough": how many base values have their encodings corrupted

\* ------------------------------------------------------------------ limits (documented in the code)
ChainCodecMax == 8192      \* LegacyECChain: cbor-gen default slice limit (gpbft/cbor_gen.go:189,218)
ChainMaxLen == 128         \* gpbft.ChainMaxLen, enforced by ECChain.Validate (gpbft/chain.go:366)
KeyMax == 760              \* TipsetKeyMaxLen, cborgen maxlen (gpbft/cbor_gen.go:46,128)
SigMax == 96
PubKeyMax == 48
DigestLen == 32
SliceMax == 8192           \* cbor-gen MaxLength
ByteArrayMax == 2097152    \* cbor-gen ByteArrayMaxLen (FinalityCertificate.Signature has no maxlen tag)
CidBytesMax == 512         \* cbg.ReadCid
BigIntMax == 128           \* go-state-types big.BigIntMaxSerializedLen
BitFieldMax == 32768       \* go-bitfield MaxEncodedSize
ZstdCap == 1048576         \* internal/encoding maxDecompressedSize

\* ------------------------------------------------------------------ schema
F(n, k) == [n |-> n, k |-> k, t |-> "", max |-> 0]
FB(n, max) == [n |-> n, k |-> "bytes", t |-> "", max |-> max]          \* byte string 0..max
FX(n, len) == [n |-> n, k |-> "fix", t |-> "", max |-> len]            \* byte string of exactly len
FS(n, t) == [n |-> n, k |-> "struct", t |-> t, max |-> 0]              \* inline tuple
FP(n, t) == [n |-> n, k |-> "ptr", t |-> t, max |-> 0]                 \* nullable tuple (null = 0xf6)
FL(n, t, max) == [n |-> n, k |-> "slice", t |-> t, max |-> max]        \* array of tuples, at most max
FC(n) == [n |-> n, k |-> "chain", t |-> "TipSet", max |-> ChainCodecMax]  \* *ECChain: array of TipSet (nil chain = empty array)

Schema == [
  TipSet |-> <<F("Epoch", "int"), FB("Key", KeyMax), F("PowerTable", "cid"), FX("Commitments", DigestLen)>>,
  SupplementalData |-> <<FX("Commitments", DigestLen), F("PowerTable", "cid")>>,
  Payload |-> <<F("Instance", "uint"), F("Round", "uint"), F("Phase", "uint8"), FS("SupplementalData", "SupplementalData"), FC("Value")>>,
  Justification |-> <<FS("Vote", "Payload"), F("Signers", "bitfield"), FB("Signature", SigMax)>>,
  GMessage |-> <<F("Sender", "uint"), FS("Vote", "Payload"), FB("Signature", SigMax), FB("Ticket", SigMax), FP("Justification", "Justification")>>,
  PartialGMessage |-> <<FP("GMessage", "GMessage"), FX("VoteValueKey", DigestLen)>>,
  PowerEntry |-> <<F("ID", "uint"), F("Power", "bigint"), FB("PubKey", PubKeyMax)>>,
  PowerTableDelta |-> <<F("ParticipantID", "uint"), F("PowerDelta", "bigint"), FB("SigningKey", PubKeyMax)>>,
  FinalityCertificate |-> <<F("GPBFTInstance", "uint"), FC("ECChain"), FS("SupplementalData", "SupplementalData"), F("Signers", "bitfield"),
                            FB("Signature", ByteArrayMax), FL("PowerTableDelta", "PowerTableDelta", SliceMax)>>,
  Request |-> <<F("FirstInstance", "uint"), F("Limit", "uint"), F("IncludePowerTable", "bool")>>,
  ResponseHeader |-> <<F("PendingInstance", "uint"), FL("PowerTable", "PowerEntry", SliceMax)>>,
  ChainExchangeMessage |-> <<F("Instance", "uint"), FC("Chain"), F("Timestamp", "int")>>,
  SnapshotHeader |-> <<F("Version", "uint"), F("FirstInstance", "uint"), F("LatestInstance", "uint"), FL("InitialPowerTable", "PowerEntry", SliceMax)>>
]
\* types whose encoding is not a tuple but a bare array of tuples
TopSlices == [ECChain |-> FC("chain"), PowerEntries |-> FL("entries", "PowerEntry", SliceMax), PowerTableDiff |-> FL("deltas", "PowerTableDelta", SliceMax)]
TupleTypes == DOMAIN Schema
Types == TupleTypes \cup DOMAIN TopSlices
Root(ty) == IF ty \in TupleTypes THEN FS("root", ty) ELSE TopSlices[ty]

\* ------------------------------------------------------------------ value dimensions
DimNames == {"chain", "key", "sig", "just", "bits", "ints", "entries"}
DimVals == [chain |-> {0, 1, 2, ChainMaxLen}, key |-> {1, 38, KeyMax}, sig |-> {0, 1, SigMax}, just |-> {0, 1},
            bits |-> {0, 1, 2}, ints |-> {0, 1, 2, 3}, entries |-> {0, 1, 2, SliceMax}]
Default == [chain |-> 2, key |-> 38, sig |-> 96, just |-> 1, bits |-> 1, ints |-> 1, entries |-> 2]
AllMin == [chain |-> 0, key |-> 1, sig |-> 0, just |-> 0, bits |-> 0, ints |-> 0, entries |-> 0]
AllMax == [chain |-> ChainMaxLen, key |-> KeyMax, sig |-> SigMax, just |-> 1, bits |-> 2, ints |-> 2, entries |-> 2]

\* which dimensions matter for a type (closure over the schema)
RECURSIVE DimsOfField(_, _)
DimsOfType(ty, fuel) == UNION {DimsOfField(Schema[ty][i], fuel) : i \in DOMAIN Schema[ty]}
DimsOfField(f, fuel) ==
  CASE f.k \in {"uint", "int", "uint8", "bigint"} -> {"ints"}
    [] f.k = "bool" -> {"ints"}
    [] f.k = "bitfield" -> {"bits"}
    [] f.k = "bytes" -> IF f.n = "Key" THEN {"key"} ELSE {"sig"}
    [] f.k = "chain" -> {"chain", "key", "ints"}
    [] f.k = "slice" -> {"entries"} \cup (IF fuel = 0 THEN {} ELSE DimsOfType(f.t, fuel - 1))
    [] f.k = "struct" -> IF fuel = 0 THEN {} ELSE DimsOfType(f.t, fuel - 1)
    [] f.k = "ptr" -> (IF f.t = "Justification" THEN {"just"} ELSE {}) \cup (IF fuel = 0 THEN {} ELSE DimsOfType(f.t, fuel - 1))
    [] OTHER -> {}
Dims(ty) == DimsOfField(Root(ty), 6)

Norm(ty, d) == [x \in DimNames |-> IF x \in Dims(ty) THEN d[x] ELSE Default[x]]
Bases(ty) == {Norm(ty, Default), Norm(ty, AllMin), Norm(ty, AllMax)}
             \cup UNION {{Norm(ty, [Default EXCEPT ![x] = v]) : v \in DimVals[x]} : x \in Dims(ty)}
RoundTripCases == UNION {{[kind |-> "rt", ty |-> ty, d |-> d, p |-> <<>>, k |-> "value", max |-> 0, n |-> 0, op |-> "roundtrip", arg |-> ""] : d \in Bases(ty)} : ty \in Types}

\* ------------------------------------------------------------------ CBOR item tree of the encoding of (ty, d)
\* item = [p |-> path (0-based child indices), k |-> kind, max |-> limit,
\*         n |-> element/field count of arrays and tuples, content length of byte strings]
Item(p, k, max, n) == [p |-> p, k |-> k, max |-> max, n |-> n]
MinN(a, b) == IF a < b THEN a ELSE b
ByteLen(f, d) == IF f.n = "Key" THEN d.key ELSE IF f.max = PubKeyMax THEN MinN(d.sig, PubKeyMax) ELSE d.sig
Count(f, d) == IF f.k = "chain" THEN d.chain ELSE d.entries
Picks(n) == IF n = 0 THEN {} ELSE {0, n - 1}
RECURSIVE ItemsOf(_, _, _, _)
ItemsOf(f, d, p, fuel) ==
  CASE f.k \in {"uint", "int", "uint8", "bool"} -> {Item(p, f.k, 0, 0)}
    [] f.k = "bytes" -> {Item(p, "bytes", f.max, ByteLen(f, d))}
    [] f.k = "fix" -> {Item(p, "fix", f.max, f.max)}
    [] f.k = "bigint" -> {Item(p, "bigint", BigIntMax, 1)}       \* the corrupted bases have small integers,
    [] f.k = "bitfield" -> {Item(p, "bitfield", BitFieldMax, 1)} \* small bitfields: content far below the limit
    [] f.k = "cid" -> {Item(p, "cid", 0, 0), Item(p \o <<0>>, "cidbytes", CidBytesMax, 37)}
    [] f.k = "struct" \/ (f.k = "ptr" /\ (f.t # "Justification" \/ d.just = 1)) ->
         {Item(p, "struct", 0, Len(Schema[f.t]))}
         \cup (IF fuel = 0 THEN {} ELSE UNION {ItemsOf(Schema[f.t][i], d, p \o <<i - 1>>, fuel - 1) : i \in DOMAIN Schema[f.t]})
    [] f.k = "ptr" -> {Item(p, "null", 0, 0)}
    [] f.k \in {"slice", "chain"} ->
         {Item(p, f.k, f.max, Count(f, d))}
         \cup (IF fuel = 0 THEN {} ELSE UNION {ItemsOf(FS("elem", f.t), d, p \o <<i>>, fuel - 1) : i \in Picks(Count(f, d))})
Items(ty, d) == ItemsOf(Root(ty), d, <<>>, 8)

\* majors a field kind accepts (anything else must be rejected)
Accepted(k) == CASE k \in {"uint", "uint8"} -> {0} [] k = "int" -> {0, 1} [] k = "bool" -> {7} [] k = "null" -> {7}
                 [] k \in {"bytes", "fix", "bigint", "bitfield", "cidbytes"} -> {2}
                 [] k = "cid" -> {6} [] k \in {"struct", "slice", "chain"} -> {4}
MajName(m) == <<"m0", "m1", "m2", "m3", "m4", "m5", "m6", "m7">>[m + 1]
HasLen(k) == k \in {"bytes", "fix", "bigint", "bitfield", "cidbytes", "slice", "chain"}

\* corruption ops of one item.  Symbolic header values: "max1" = limit+1, "max10" = 10*limit, "u32" = 2^32,
\* "u63" = 2^63, "u64" = 2^64-1, "max" = the limit itself, "n+1"/"n-1" = field count of a tuple off by one, "len+1"/"len-1" for fixed arrays
OpsOf(it) ==
  {[op |-> "trunc", arg |-> "start"], [op |-> "trunc", arg |-> "hdr"]}
  \cup (IF it.p = <<>> THEN {[op |-> "trunc", arg |-> "end-1"]} ELSE {})
  \cup {[op |-> "major", arg |-> MajName(m)] : m \in (0..7) \ Accepted(it.k)}
  \cup (IF HasLen(it.k) THEN {[op |-> "hdrlen", arg |-> v] : v \in {"max1", "max10", "u32", "u63", "u64"}} ELSE {})
  \* a header claiming exactly the limit while the content is shorter: the decoder may pre-allocate, then hits EOF
  \cup (IF HasLen(it.k) /\ it.n < it.max THEN {[op |-> "hdrlen", arg |-> "max"]} ELSE {})
  \cup (IF it.k = "struct" THEN {[op |-> "hdrlen", arg |-> v] : v \in {"n+1", "n-1", "u64"}} ELSE {})
  \cup (IF it.k = "fix" THEN {[op |-> "hdrlen", arg |-> v] : v \in {"len-1"}} \cup {[op |-> "resize", arg |-> v] : v \in {"len-1", "max1"}} ELSE {})
  \cup (IF it.k \in {"bytes", "bigint", "bitfield", "cidbytes"} THEN {[op |-> "resize", arg |-> "max1"]} ELSE {})
  \cup (IF it.k \in {"slice", "chain"} /\ it.n > 0 THEN {[op |-> "resize", arg |-> "max1"]} ELSE {})
  \cup (IF it.k = "chain" /\ it.n > 0 THEN {[op |-> "resize", arg |-> "vmax1"]} ELSE {})   \* ChainMaxLen + 1 tipsets

\* bases whose encodings are corrupted (a subset of the round-trip bases keeps the table small)
CorruptBases(ty) == {Norm(ty, Default), Norm(ty, AllMin)}
                    \cup (IF Tier = "thorough"
                          THEN {Norm(ty, [Default EXCEPT !.chain = 1, !.just = 0, !.entries = 1]),
                                Norm(ty, [Default EXCEPT !.chain = ChainMaxLen, !.key = KeyMax, !.sig = 1])}
                          ELSE {})
CasesFor(ty, d) == UNION {{[kind |-> "cor", ty |-> ty, d |-> d, p |-> it.p, k |-> it.k, max |-> it.max, n |-> it.n, op |-> o.op, arg |-> o.arg] : o \in OpsOf(it)}
                          : it \in Items(ty, d)}
CorruptionCases == UNION {UNION {CasesFor(ty, d) : d \in CorruptBases(ty)} : ty \in Types}

\* zstd-level cases (per type, default value)
ZstdOps == {[op |-> "zpad", arg |-> v] : v \in {"cap", "cap+1", "4cap", "64cap"}}
           \cup {[op |-> "zclaim", arg |-> v] : v \in {"cap+1", "u32", "u63", "win31"}}
           \cup {[op |-> "ztrunc", arg |-> v] : v \in {"0", "4", "half", "end-1"}}
           \cup {[op |-> "zmagic", arg |-> "x"]}
ZstdCases == {[kind |-> "zst", ty |-> ty, d |-> Norm(ty, Default), p |-> <<>>, k |-> "frame", max |-> 0, n |-> 0, op |-> o.op, arg |-> o.arg] : ty \in Types, o \in ZstdOps}
Cases == RoundTripCases \cup CorruptionCases \cup ZstdCases

\* ------------------------------------------------------------------ expected verdicts (what the property fixes)
\* every generated corruption makes the input invalid: a strict prefix of a tuple encoding lacks items; a length
\* header beyond its limit, a wrong field count and a major type outside Accepted(k) are rejected by definition
MustReject(c) == c.kind = "cor" \/ (c.kind = "zst" /\ ~(c.op = "zpad" /\ c.arg = "cap"))
\* where the rejection happens: the decoder, except the chain-length limit (ChainMaxLen) which is Validate()'s
RejectedByValidate(c) == c.kind = "cor" /\ c.op = "resize" /\ c.arg = "vmax1"

\* ------------------------------------------------------------------ allocation ceiling derived from the limits
\* a decoder may pre-allocate what a header claims, up to the field's limit, before reading content
ElemSize(t) == IF t = "TipSet" THEN 96 ELSE 64
RECURSIVE PreOfField(_, _)
PreOfType(ty, fuel) == LET s == Schema[ty] IN
  IF fuel = 0 THEN 0 ELSE
  LET RECURSIVE Sum(_)
      Sum(i) == IF i = 0 THEN 0 ELSE PreOfField(s[i], fuel) + Sum(i - 1)
  IN Sum(Len(s))
PreOfField(f, fuel) ==
  CASE f.k \in {"bytes", "fix"} -> f.max
    [] f.k = "bigint" -> BigIntMax
    [] f.k = "bitfield" -> BitFieldMax
    [] f.k = "cid" -> CidBytesMax
    [] f.k \in {"slice", "chain"} -> f.max * ElemSize(f.t) + PreOfType(f.t, fuel - 1)
    [] f.k \in {"struct", "ptr"} -> PreOfType(f.t, fuel - 1)
    [] OTHER -> 0
Pre(ty) == PreOfField(Root(ty), 8)
AllocSlack == 262144
\* decode of n input bytes of type ty: constant slack + 24 bytes per input byte + header-claimed pre-allocations
CborCeilingP(pre, n) == AllocSlack + 24 * n + 2 * pre
CborCeiling(ty, n) == CborCeilingP(Pre(ty), n)
\* zstd: the pooled 1 MiB output buffer, decoder state, then the CBOR decode of at most ZstdCap bytes
ZstdCeilingP(pre, n) == 4 * ZstdCap + CborCeilingP(pre, IF n > ZstdCap THEN ZstdCap ELSE n) + 24 * ZstdCap
ZstdCeiling(ty, n) == ZstdCeilingP(Pre(ty), n)
=============================================================================

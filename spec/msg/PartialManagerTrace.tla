------------------------ MODULE PartialManagerTrace ------------------------
(* Trace validation of the real pmsg.PartialMessageManager (driver: harness/drivers/pmsgmgr) against PartialManager.tla.
   One NDJSON line per input event (arguments + a read-only dump of the manager's buffers / index and of the chain
   exchange caches once the goroutines are idle + n, the number of completed messages read from the queue after it) and
   one line per message read from the completed-message queue (Emit: which arrival it is, announced key, the chain it was
   completed with, justification value, byte equality with the original, verdict of the real stage 2 and of the real
   one-shot validation of an independently completed copy).

   The model advances with PartialManager.tla's own actions on the logged arguments; every action is total.
   C13_Mgr* clauses judge the OBSERVED behaviour (what the real code emitted / admitted): a failure is a VIOLATION.
   Conf_* clauses say "the code still is the implementation-shaped spec" (exact buffers, index, caches, emissions).  *)
EXTENDS PartialManager, Integers, Json, TLCExt
CONSTANT TraceFile
VARIABLES l, obs, bad, cov,
          hold,     \* the history reads the queue only at Drain events
          owe,      \* everything the last events had to complete should have been read from the queue by now
          due,      \* arrival ids whose completion is owed (C13_MgrComplete on observed emissions)
          seen,     \* arrival ids read from the queue so far
          overdue   \* what was still owed when the next input event came
tvars == <<mvars, l, obs, bad, cov, hold, owe, due, seen, overdue>>

TraceLog == ndJsonDeserialize(TraceFile)
Ev == TraceLog[l]
IsEvent(e) == l <= Len(TraceLog) /\ TraceLog[l].ev = e /\ l' = l + 1
NoObs == [kind |-> "none"]

\* ------------------------------------------------------------------ the dumps
ObsBuf(d) == [i \in {d[j].i : j \in DOMAIN d} |->
                LET e == d[CHOOSE j \in DOMAIN d : d[j].i = i] IN [n \in DOMAIN e.q |-> e.q[n].mid]]
ObsBufOk(d) == \A j \in DOMAIN d : \A n \in DOMAIN d[j].q :
                 LET x == d[j].q[n] IN Has(reg, x.mid) /\ reg[x.mid].slot = x.s /\ reg[x.mid].ak = x.k /\ reg[x.mid].inst = d[j].i
ObsIdx(d) == [p \in {<<d[j].i, d[j].k>> : j \in DOMAIN d} |-> d[CHOOSE j \in DOMAIN d : <<d[j].i, d[j].k>> = p].q]
ObsCw(d) == [p \in {<<d[j].i, d[j].k>> : j \in DOMAIN d} |-> d[CHOOSE j \in DOMAIN d : <<d[j].i, d[j].k>> = p].st]
ObsCwOk(d) == \A j \in DOMAIN d : d[j].st = "ch" => d[j].v = d[j].k
ObsCd(d) == {<<d[j].i, d[j].k>> : j \in DOMAIN d}
Dump == [bufs |-> Ev.bufs, idx |-> Ev.idx, cw |-> Ev.cw, cd |-> Ev.cd, n |-> Ev.n]

MsgOf(e) == [inst |-> e.inst, slot |-> e.s, ak |-> e.ak, oc |-> e.oc, jk |-> e.jk, p1 |-> (e.p1 = "OK"), fed |-> e.fed, gen |-> e.gen]
JvOf(e) == IF ~e.hasj THEN "none" ELSE IF e.jc = <<>> THEN "zero" ELSE IF e.jc = e.cv THEN "same" ELSE "other"

\* ------------------------------------------------------------------ bookkeeping of the completion obligation on OBSERVED emissions
(* An obligation is only judged where no admissible drop policy of the output queue can interfere: reading after every
   event and a queue at least as large as an instance buffer, or a queue at least as large as everything that arrived. *)
QueueSafe == IF hold THEN Cardinality(DOMAIN reg) <= cfg.capOut ELSE cfg.cap <= cfg.capOut
MustObs(i, c) == {x \in Must(i, c) : x \notin seen}
\* a non-Emit event: what is still owed is overdue; new obligations nw
Input(nw, isDrain) ==
  /\ overdue' = IF owe /\ QueueSafe THEN due ELSE {}
  /\ due' = (IF owe THEN {} ELSE due) \cup nw
  /\ owe' = (~hold \/ isDrain)
  /\ UNCHANGED <<seen, hold>>
In(kind) == [kind |-> kind, d |-> Dump, left |-> IF owe THEN Len(out) ELSE 0, drained |-> owe']

TInit == /\ MgrInit([cap |-> 1, capOut |-> 1]) /\ l = 1 /\ obs = NoObs /\ bad = {} /\ hold = FALSE /\ owe = FALSE
         /\ due = {} /\ seen = {} /\ overdue = {}
         /\ cov = [emits |-> 0, admitted |-> 0, foreignEmitted |-> 0, roundTrips |-> 0, obligations |-> 0, evictions |-> 0,
                   prunedHeld |-> 0, dupSlot |-> 0, queueDrops |-> 0, lookupsFound |-> 0, lookupNotifies |-> 0, published |-> 0,
                   stage2Rejects |-> 0, justified |-> 0, notFed |-> 0]

TrReset ==
  /\ IsEvent("Reset")
  /\ cfg' = [cap |-> Ev.cap, capOut |-> Ev.capOut]
  /\ buf' = <<>> /\ idx' = <<>> /\ cxw' = <<>> /\ cxd' = {} /\ cur' = NoCur /\ out' = <<>>
  /\ reg' = <<>> /\ log' = <<>> /\ gone' = {} /\ excused' = {} /\ cnt' = <<>> /\ late' = {} /\ last' = NoLast
  /\ hold' = Ev.hold /\ owe' = FALSE /\ due' = {} /\ seen' = {} /\ overdue' = {}
  /\ obs' = [kind |-> "Reset", d |-> Dump, left |-> 0, drained |-> TRUE]

TrArrive ==
  /\ IsEvent("Arrive") /\ Arrive(Ev.mid, MsgOf(Ev)) /\ Input({}, FALSE)
  /\ obs' = In("Arrive")
TrComplete ==
  /\ IsEvent("Complete") /\ Complete(MsgOf(Ev)) /\ Input({}, FALSE)
  /\ obs' = [In("Complete") EXCEPT !.kind = "Complete"] @@
            [found |-> Ev.found, ak |-> Ev.ak, oc |-> Ev.oc, gen |-> Ev.gen, ck |-> Ev.ck, cv |-> Ev.cv, jv |-> JvOf(Ev),
             eq |-> Ev.eq, ov |-> Ev.ov, jk |-> Ev.jk]
TrNotify ==
  /\ IsEvent("Notify") /\ Notify(Ev.inst, Ev.chain) /\ Input(MustObs(Ev.inst, Ev.chain), FALSE)
  /\ obs' = In("Notify")
TrAdmit == IsEvent("Admit") /\ Admit(Ev.inst, Ev.chain) /\ Input({}, FALSE) /\ obs' = In("Admit")
TrOwn == IsEvent("Own") /\ Own(Ev.inst, Ev.chain) /\ Input({}, FALSE) /\ obs' = In("Own")
TrTick == IsEvent("Tick") /\ Tick /\ Input({}, FALSE) /\ obs' = In("Tick")
TrPrune == IsEvent("Prune") /\ Prune(Ev.below) /\ Input({}, FALSE) /\ obs' = In("Prune")
Idle == UNCHANGED mvars
TrDrain == IsEvent("Drain") /\ Idle /\ Input({}, TRUE) /\ obs' = In("Drain")
TrEnd == IsEvent("End") /\ Idle /\ Input({}, TRUE) /\ obs' = In("End")

TrEmit ==
  /\ IsEvent("Emit")
  /\ IF out # <<>> THEN Take ELSE Idle
  /\ obs' = [kind |-> "Emit", e |-> Ev, jv |-> JvOf(Ev), had |-> out # <<>>, pred |-> IF out # <<>> THEN Head(out) ELSE [mid |-> 0, ck |-> <<>>, jv |-> "-"],
             known |-> Has(reg, Ev.mid), twice |-> Ev.mid \in seen, pruned |-> Ev.mid \in gone]
  /\ seen' = seen \cup {Ev.mid}
  /\ due' = IF Ev.ck = Ev.ak THEN due \ {Ev.mid} ELSE due
  /\ overdue' = {} /\ UNCHANGED <<hold, owe>>

TNext == TrReset \/ TrArrive \/ TrComplete \/ TrNotify \/ TrAdmit \/ TrOwn \/ TrTick \/ TrPrune \/ TrDrain \/ TrEnd \/ TrEmit

\* ------------------------------------------------------------------ property monitors (C13), on observed behaviour
IsEmit == obs.kind = "Emit"
Admitted == IsEmit /\ obs.e.p1 = "OK" /\ obs.e.fv = "OK"
\* a chain whose key differs from the announced key, or a justification for a different value, is never admitted
\* through the two-stage path (emitted by the manager AND accepted by the real stage 2), nor through the immediate path
T_MgrNoForeignChain ==
  /\ Admitted => (obs.e.ck = obs.e.ak /\ obs.e.cv = obs.e.ck /\ obs.jv # "other")
  /\ (obs.kind = "Complete" /\ obs.found /\ obs.ov = "OK") => (obs.ck = obs.ak /\ obs.cv = obs.ck /\ obs.jv # "other")
\* stage 2 accepts what the manager completed iff one-shot validation of the message completed with that chain accepts
\* and the chain has the announced key
T_MgrSameAcceptance ==
  (IsEmit /\ obs.e.p1 = "OK") => ((obs.e.fv = "OK") <=> (obs.e.ov = "OK" /\ obs.e.ck = obs.e.ak))
\* the production strip of a valid message, completed with the original chain, is the original message
T_MgrRoundTrip ==
  /\ (IsEmit /\ obs.known /\ reg[obs.e.mid].gen /\ obs.e.ck = reg[obs.e.mid].oc) => obs.e.eq
  /\ (obs.kind = "Complete" /\ obs.found /\ obs.gen /\ obs.ck = obs.oc) => obs.eq
\* a buffered message is completed once the listener is told its chain (see Must in PartialManager.tla)
T_MgrComplete == overdue = {}

\* ------------------------------------------------------------------ conformance
IsInput == obs.kind \notin {"none", "Emit"}
Conf_State == IsInput =>
  /\ ObsBuf(obs.d.bufs) = buf /\ ObsIdx(obs.d.idx) = idx
  /\ ObsCw(obs.d.cw) = cxw /\ ObsCd(obs.d.cd) = cxd /\ ObsCwOk(obs.d.cw)
Conf_OutCount == IsInput => (obs.left = 0 /\ obs.d.n = (IF obs.drained THEN Len(out) ELSE 0))
Conf_EmitExact == IsEmit => (obs.had /\ obs.known /\ obs.pred.mid = obs.e.mid /\ obs.pred.ck = obs.e.ck /\ obs.pred.jv = obs.jv
                             /\ obs.e.cv = obs.e.ck /\ obs.e.ak = reg[obs.e.mid].ak /\ obs.e.s = reg[obs.e.mid].slot)
T_AtMostOnce == IsEmit => ~obs.twice
T_NoPruned == IsEmit => ~obs.pruned
Conf_BufDesc == IsInput => ObsBufOk(obs.d.bufs)
T_Bounded == IsInput => ((\A j \in DOMAIN obs.d.bufs : Len(obs.d.bufs[j].q) <= cfg.cap) /\ obs.d.n <= cfg.capOut)
Conf_Found == obs.kind = "Complete" =>
  /\ obs.found = last.found
  /\ obs.found => (obs.ck = last.ck /\ (last.jv = "asis" \/ obs.jv = last.jv))

B(x) == IF x THEN 1 ELSE 0
CovStep ==
  cov' = [emits |-> cov.emits + B(IsEmit'),
          admitted |-> cov.admitted + B(Admitted'),
          foreignEmitted |-> cov.foreignEmitted + B(IsEmit' /\ obs'.e.ck # obs'.e.ak),
          stage2Rejects |-> cov.stage2Rejects + B(IsEmit' /\ obs'.e.p1 = "OK" /\ obs'.e.fv # "OK"),
          justified |-> cov.justified + B(Admitted' /\ obs'.jv = "same"),
          roundTrips |-> cov.roundTrips + B(IsEmit' /\ obs'.known /\ reg[obs'.e.mid].gen /\ obs'.e.ck = reg[obs'.e.mid].oc),
          obligations |-> cov.obligations + Cardinality(due' \ due),
          evictions |-> cov.evictions + B(obs'.kind = "Arrive" /\ \E i \in DOMAIN buf : \E j \in 1..Len(buf[i]) : Has(buf', i) /\ buf[i][j] \notin {buf'[i][n] : n \in 1..Len(buf'[i])}),
          prunedHeld |-> cov.prunedHeld + B(obs'.kind = "Prune" /\ gone' # gone),
          dupSlot |-> cov.dupSlot + B(obs'.kind = "Arrive" /\ excused' # excused),
          queueDrops |-> cov.queueDrops + B(IsInput' /\ Len(log') - Len(log) > Len(out') - Len(out)),
          lookupsFound |-> cov.lookupsFound + B(obs'.kind = "Complete" /\ obs'.found),
          lookupNotifies |-> cov.lookupNotifies + B(obs'.kind = "Complete" /\ Len(log') > Len(log)),
          published |-> cov.published + B(obs'.kind \in {"Own", "Tick"} /\ cxw' # cxw),
          notFed |-> cov.notFed + B(obs'.kind = "Arrive" /\ ~TraceLog[l].fed)]

Clauses == {"C13_MgrNoForeignChain", "C13_MgrSameAcceptance", "C13_MgrRoundTrip", "C13_MgrComplete",
            "Conf_State", "Conf_OutCount", "Conf_EmitExact", "Conf_AtMostOnce", "Conf_NoPruned", "Conf_Bounded", "Conf_Found", "Conf_BufDesc"}
Holds(c) == CASE c = "C13_MgrNoForeignChain" -> T_MgrNoForeignChain [] c = "C13_MgrSameAcceptance" -> T_MgrSameAcceptance
              [] c = "C13_MgrRoundTrip" -> T_MgrRoundTrip [] c = "C13_MgrComplete" -> T_MgrComplete
              [] c = "Conf_State" -> Conf_State [] c = "Conf_OutCount" -> Conf_OutCount [] c = "Conf_EmitExact" -> Conf_EmitExact
              [] c = "Conf_AtMostOnce" -> T_AtMostOnce [] c = "Conf_NoPruned" -> T_NoPruned [] c = "Conf_Bounded" -> T_Bounded
              [] c = "Conf_Found" -> Conf_Found [] c = "Conf_BufDesc" -> Conf_BufDesc
TStep == /\ TNext
         /\ LET nb == {c \in Clauses : ~(Holds(c))'} IN
              /\ bad' = bad \cup {<<l, c>> : c \in nb}
              /\ IF nb = {} \/ Cardinality(bad) > 2000 THEN TRUE ELSE PrintT(<<"VERIF_BAD", l, nb>>)
         /\ CovStep
         /\ IF l' <= Len(TraceLog) THEN TRUE ELSE PrintT(<<"VERIF_COV", ToJson(cov')>>)
TSpec == TInit /\ [][TStep]_tvars
=============================================================================

------------------------------ MODULE MCMerkle ------------------------------
(* Design check of Merkle.tla: one state per n in 1..MaxN (the input space is enumerated as states,
   so all workers are used); the same run writes the shapes Tree(k), k <= MaxN, to shapes.ndjson for
   the driver (spec -> code direction).                                                          *)
EXTENDS Merkle, Json, TLC
CONSTANT MaxN, EmitN, EmitFile
VARIABLE n

Emit == IF EmitFile = "" THEN TRUE
        ELSE ndJsonSerialize(EmitFile, [k \in 1..EmitN |-> [k |-> k, shape |-> Tree(k), count |-> Count(Tree(k))]])
MCInit == Emit /\ n \in 1..MaxN
MCNext == FALSE /\ n' = n
MCSpec == MCInit /\ [][MCNext]_n

InvBatchEqualsTree == BatchEqualsTree(n)
InvLeaves == KeyBindsEveryLeafInOrder(n)
InvLength == KeyBindsLength(n)
=============================================================================

SPECIFICATION MCSpec
CONSTANTS
  BatchVariant = "code"
  Variant = "vrfNoInst"
  WInt = 8
  WDigest = 32
  Mode = "real"
  Size = "small"
  Kinds = {"V"}
INVARIANTS InvSingleField
CHECK_DEADLOCK FALSE

--------------------------- MODULE ValidatorTable ---------------------------
(* Table check of property C05 against the real gpbft.Participant.ValidateMessage.
   One NDJSON line = one abstract (message, committee, progress) point, materialised by the driver
   (harness/drivers/msgval) as a real signed GMessage, with the verdict classes the REAL validator returned
     vf  on a fresh participant,
     vw  on long-lived participants with warm validation caches (all distinct classes seen over the histories),
     vc  when validated by 16 goroutines at once.
   TLC recomputes the rules from the coordinates of the line and evaluates the clauses of C05 (Validator.tla).
   C05_* failing = VIOLATION; Conf_* failing = the code no longer behaves like Verdict() where C05 is silent (drift). *)
EXTENDS Validator, Json, TLCExt
CONSTANT TraceFile
VARIABLES l, obs, bad
tvars == <<l, obs, bad>>

Table == ndJsonDeserialize(TraceFile)
Range(s) == {s[i] : i \in DOMAIN s}
ObsOf(e) == [m |-> [ph |-> e.ph, r |-> e.r, v |-> e.v, snd |-> e.snd, sig |-> e.sig, tk |-> e.tk, jph |-> e.jph, jr |-> e.jr,
                    jv |-> e.jv, jinst |-> e.jinst, jsupp |-> e.jsupp, jS |-> e.jS, jagg |-> e.jagg],
             g |-> [di |-> e.di, cr |-> e.cr, cph |-> e.cph], cm |-> e.cm,
             fresh |-> e.vf, seen |-> {e.vf} \cup Range(e.vw) \cup Range(e.vc)]
NoObs == [m |-> Flat([ph |-> "QUALITY", r |-> 0, v |-> "ext", snd |-> "member", sig |-> "ok", tk |-> "none"], JNone),
          g |-> [di |-> 0, cr |-> 0, cph |-> "INITIAL"], cm |-> TRUE, fresh |-> "OK", seen |-> {"OK"}]

TInit == l = 1 /\ obs = NoObs /\ bad = {}
TNext == l <= Len(Table) /\ obs' = ObsOf(Table[l]) /\ l' = l + 1

Clauses == {"C05_Sound", "C05_Complete", "C05_NotBrandedInvalid", "C05_HistoryIndependent", "Conf_Verdict", "Conf_InSpace"}
HoldsX(cl, o, x) == CASE cl = "C05_Sound" -> SoundX(o, x) [] cl = "C05_Complete" -> CompleteX(o, x)
                      [] cl = "C05_NotBrandedInvalid" -> NotBrandedX(o, x) [] cl = "C05_HistoryIndependent" -> C05_HistoryIndependent(o)
                      [] cl = "Conf_Verdict" -> ConfVerdictX(o, x) [] cl = "Conf_InSpace" -> Conf_InSpace(o)
Failing(o, x) == {cl \in Clauses : ~HoldsX(cl, o, x)}
Accumulate(nb) == /\ bad' = bad \cup {<<l, cl>> : cl \in nb}
                  /\ (nb = {} \/ Cardinality(bad) > 200 \/ PrintT(<<"VERIF_BAD", l, nb>>))
TStep == TNext /\ Accumulate(Failing(obs', Abs(obs'.m)))
TSpec == TInit /\ [][TStep]_tvars
=============================================================================

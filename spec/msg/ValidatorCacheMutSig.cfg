INIT Init
NEXT Next
CONSTANTS
  Lookback = 4
  KeyMut = "nosig"
INVARIANT HistoryIndependent
CHECK_DEADLOCK FALSE

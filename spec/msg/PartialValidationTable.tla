------------------------ MODULE PartialValidationTable ------------------------
(* Table check of property C13 against the real PartiallyValidateMessage / inferJustificationVoteValue /
   FullyValidateMessage versus ValidateMessage.  One NDJSON line = one point (original message, announced key,
   completing chain, carried justification, progress) with what the REAL code answered on fresh participants and on
   long-lived participants whose cache is shared by both paths (driver: harness/drivers/msgval/c13_test.go).
   C13_* failing = VIOLATION; Conf_* failing = the stages no longer behave like PartialValidation.tla (drift).  *)
EXTENDS PartialValidation, Json, TLCExt
CONSTANT TraceFile
VARIABLES l, obs, bad
tvars == <<l, obs, bad>>

Table == ndJsonDeserialize(TraceFile)
Range(s) == {s[i] : i \in DOMAIN s}
ObsOf(e) == [m |-> [ph |-> e.ph, r |-> e.r, v |-> e.v, snd |-> e.snd, sig |-> e.sig, tk |-> e.tk, jph |-> e.jph, jr |-> e.jr,
                    jv |-> e.jv, jinst |-> e.jinst, jsupp |-> e.jsupp, jS |-> e.jS, jagg |-> e.jagg],
             ak |-> e.ak, cc |-> e.cc, pj |-> e.pj,
             g |-> [di |-> e.di, cr |-> e.cr, cph |-> e.cph], cm |-> e.cm,
             pcf |-> e.pcf, fcf |-> e.fcf, ocf |-> e.ocf, ts |-> Range(e.ts), os |-> Range(e.os), rt |-> e.rt]
NoObs == [m |-> Flat([ph |-> "QUALITY", r |-> 0, v |-> "ext", snd |-> "member", sig |-> "ok", tk |-> "none"], JNone),
          ak |-> "match", cc |-> "orig", pj |-> "strip", g |-> [di |-> 0, cr |-> 0, cph |-> "INITIAL"], cm |-> TRUE,
          pcf |-> "OK", fcf |-> "OK", ocf |-> "OK", ts |-> {TRUE}, os |-> {TRUE}, rt |-> TRUE]

TInit == l = 1 /\ obs = NoObs /\ bad = {}
TNext == l <= Len(Table) /\ obs' = ObsOf(Table[l]) /\ l' = l + 1

\* C05 on the partial entry point: the verdicts recorded for one point on a fresh participant and on long-lived participants
\* (warm cache shared by both paths, several orders, with and without eviction) are all the same
C05P_HistoryIndependent(o) == Cardinality(o.ts) <= 1 /\ Cardinality(o.os) <= 1
Clauses == {"C13_SameAcceptance", "C13_NoForeignChain", "C13_NoForeignJustification", "C13_RoundTrip", "C05_HistoryIndependent",
            "Conf_Partial", "Conf_Full", "Conf_OneShot", "Conf_InSpace"}
HoldsP(cl, o, p) == CASE cl = "C13_SameAcceptance" -> C13P_SameAcceptance(o, p) [] cl = "C13_NoForeignChain" -> C13P_NoForeignChain(o, p)
                      [] cl = "C13_NoForeignJustification" -> C13P_NoForeignJustification(o, p) [] cl = "C13_RoundTrip" -> C13P_RoundTrip(o, p)
                      [] cl = "C05_HistoryIndependent" -> C05P_HistoryIndependent(o)
                      [] cl = "Conf_Partial" -> ConfP_Partial(o, p) [] cl = "Conf_Full" -> ConfP_Full(o, p)
                      [] cl = "Conf_OneShot" -> ConfP_OneShot(o, p) [] cl = "Conf_InSpace" -> ConfP_InSpace(o)
Failing(o, p) == {cl \in Clauses : ~HoldsP(cl, o, p)}
Accumulate(nb) == /\ bad' = bad \cup {<<l, cl>> : cl \in nb}
                  /\ (nb = {} \/ Cardinality(bad) > 200 \/ PrintT(<<"VERIF_BAD", l, nb>>))
TStep == TNext /\ Accumulate(Failing(obs', Point(obs'.m, obs'.ak, obs'.cc, obs'.pj)))
TSpec == TInit /\ [][TStep]_tvars
=============================================================================

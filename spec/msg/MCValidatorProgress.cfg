INIT Init
NEXT Next
CONSTANTS
  Lookback = 4
  Sentinel = FALSE
  EmitRows = FALSE
  Mode = "progress"
  NSlices = 1
  Slice = 0
INVARIANTS D_InSpace D_Design Emit
CHECK_DEADLOCK FALSE

------------------------ MODULE MCPartialValidation ------------------------
(* Design check of PartialValidation.tla and generator of the C13 table: TLC enumerates
   (message of a reduced Validator space) x announced key x completing chain x carried justification as states
   and checks the four clauses of C13 on the model of the two stages.  Mut # "none" are the non-vacuity runs.   *)
EXTENDS PartialValidation
CONSTANTS EmitRows, NSlices, Slice
VARIABLES c, j, ak, cc, pj, st
vars == <<c, j, ak, cc, pj, st>>

G0 == [di |-> 0, cr |-> 0, cph |-> "QUALITY"]
PhIdx == [QUALITY |-> 0, CONVERGE |-> 1, PREPARE |-> 2, COMMIT |-> 3, DECIDE |-> 4, INITIAL |-> 5, TERMINATED |-> 6, BOGUS |-> 7]
VIdx == [bot |-> 0, base |-> 1, ext |-> 2, bad |-> 3]
SliceOf(x) == (PhIdx[x.ph] + 3 * (x.r + 1) + 5 * VIdx[x.v]) % NSlices
\* reduced space: the signer-set / instance / supplemental-data axes are orthogonal to the two-stage split (C05 covers them)
Core13 == {x \in CoreMsg : x.tk \in {"none", "ok", "wronground"}
                           /\ <<x.snd, x.sig>> \in {<<"member", "ok">>, <<"member", "otherpayload">>, <<"zero", "ok">>}}
J13 == {JNone} \cup {x \in JFull : x.jinst = "same" /\ x.jS \in {"strong", "short"} /\ x.jagg \in {"ok", "otherpayload"}}
Init == /\ st = "core" /\ j = JNone /\ ak = "match" /\ cc = "orig" /\ pj = "strip"
        /\ c \in {x \in Core13 : SliceOf(x) = Slice}
Next == /\ st = "core" /\ st' = "full" /\ c' = c
        /\ \E js \in {J13} : j' \in js /\ ak' \in AKs /\ cc' \in CCs /\ pj' \in PJs

Row == st = "full"
P == Point(Flat(c, j), ak, cc, pj)
DesignP(p) == \A cm \in BOOLEAN :
  /\ p.K = p.C => (TwoStageP(p, G0, cm) <=> OneShotP(p, G0, cm) = "OK")        \* same acceptance
  /\ p.K # p.C => ~TwoStageP(p, G0, cm)                                        \* no foreign chain
  /\ TwoStageP(p, G0, cm) => AllRules(Completed(p.x, p.C, p.jv2))              \* no foreign justification: the admitted message is valid
  /\ AllRules(p.x) => RoundTripModel(p.x)                                      \* strip; complete with the original chain = identity
D_Design == Row => DesignP(P)
RowString == c.ph \o "," \o ToString(c.r) \o "," \o c.v \o "," \o c.snd \o "," \o c.sig \o "," \o c.tk \o "," \o j.jph \o ","
             \o ToString(j.jr) \o "," \o j.jv \o "," \o j.jinst \o "," \o j.jsupp \o "," \o j.jS \o "," \o j.jagg
             \o "," \o ak \o "," \o cc \o "," \o pj
Emit == Row => (EmitRows => PrintT(RowString))
=============================================================================

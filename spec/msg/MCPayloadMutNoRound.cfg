SPECIFICATION MCSpec
CONSTANTS
  BatchVariant = "code"
  Variant = "noRound"
  WInt = 8
  WDigest = 32
  Mode = "real"
  Size = "small"
  Kinds = {"P"}
INVARIANTS InvSingleField
CHECK_DEADLOCK FALSE

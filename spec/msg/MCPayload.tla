------------------------------ MODULE MCPayload ------------------------------
(* Design check of Payload.tla.  The input space (payload / tipset / VRF / chain tuples over small
   alphabets of byte strings) is enumerated as TLC *states*; the invariants quantify over the
   single-field neighbours of the state (InvSingleField), over all tuples of the same network
   (InvGivenNetwork) and over all tuples (InvFull, which is EXPECTED to be refuted for payloads and
   VRF inputs: network name / beacon are variable length and ':' may occur in them, so two different
   networks can sign the same bytes -- the code relies on "the network name is fixed per network").
   Mode "real": field widths of the code (8/32).  Mode "reduced": widths 1/1 and bytes in {1, 58} so
   that the exhaustive pairwise search over all fields is small.                                  *)
EXTENDS Payload, TLC
CONSTANTS Mode, Kinds, Size   \* Size = "small" | "full" (alphabet sizes)
VARIABLE x      \* <<kind, tuple>>

Rep(b, n) == [i \in 1..n |-> b]
Real == Mode = "real"
Full == Size = "full"
Pick(S, n) == IF Full \/ Cardinality(S) <= n THEN S ELSE CHOOSE T \in SUBSET S : Cardinality(T) = n
Names == IF Real THEN Pick({<<102, 51>>, <<102, 51, 58>>, <<102>>}, 2) ELSE {<<97>>, <<97, 58>>}
U64s == IF Real THEN Pick({Rep(0, 8), Rep(0, 7) \o <<1>>, <<1>> \o Rep(0, 7)}, 2) ELSE {<<58>>, <<1>>}
Phases == IF Real THEN Pick({0, 3, 58}, 2) ELSE {1, 58}
D32s == IF Real THEN {Rep(0, 32), Rep(0, 31) \o <<1>>} ELSE {<<58>>, <<1>>}
Cids == IF Real THEN {CidPrefix \o Rep(7, 32), CidPrefix \o Rep(8, 32), <<>>} \cup (IF Full THEN {<<1, 85, 0, 0>>} ELSE {})
        ELSE {<<58>>, <<58, 58>>, <<1>>}     \* reduced: opaque variable-length strings
Keys == IF Real THEN {Rep(5, 32), Rep(9, 32)} ELSE {<<58>>, <<1>>}
TsKeys == IF Real THEN {<<1>>, <<1, 2>>} ELSE {<<1>>, <<1, 58>>}
Epochs == IF Real THEN {Rep(0, 8), Rep(0, 7) \o <<1>>} ELSE {<<58>>, <<1>>}
Beacons == IF Real THEN {<<>>, <<99>>, <<98, 58, 99>>, <<58>>} ELSE {<<>>, <<58>>, <<1>>, <<1, 58>>}
VNames == IF Real THEN {<<97>>, <<97, 58, 98>>, <<97, 58>>} ELSE {<<1>>, <<1, 58>>}

TipSets == [epoch : Epochs, comm : D32s, key : TsKeys, pt : {c \in Cids : c # <<>>}]
TwoCids == {c \in Cids : Len(c) > 2} \cup {CHOOSE c \in Cids : c # <<>>}
SmallTS == [epoch : Epochs, comm : D32s, key : TsKeys, pt : IF Real THEN {CidPrefix \o Rep(7, 32), CidPrefix \o Rep(8, 32)} ELSE {<<58>>, <<1>>}]
\* real widths: a base tipset and its four single-component variants; reduced widths: all 16 tipsets
StarTS == LET a == CHOOSE t \in SmallTS : TRUE
          IN {a} \cup {t \in SmallTS : Cardinality({f \in {"epoch", "comm", "key", "pt"} : t[f] # a[f]}) = 1}
ChainTS == IF Real THEN StarTS ELSE SmallTS
Chains == {<<>>} \cup {<<a>> : a \in ChainTS} \cup {<<a, b>> : a, b \in ChainTS}
LongChains == LET a == CHOOSE t \in SmallTS : TRUE
                  b == CHOOSE t \in SmallTS : t # a
              IN {[i \in 1..n |-> IF i = j THEN b ELSE a] : n \in 3..6, j \in 0..6}
SampleChains == LET a == CHOOSE t \in SmallTS : TRUE
                    b == CHOOSE t \in SmallTS : t # a
                IN IF Full THEN {<<>>, <<a>>, <<a, b>>, <<b, a>>, <<a, b, a>>} ELSE {<<>>, <<a, b>>}
Vals == {<<"key", k>> : k \in Keys} \cup {<<"chain", c>> : c \in SampleChains}

Space(kind) == CASE kind = "P" -> [nn : Names, inst : U64s, round : U64s, phase : Phases, comm : D32s, pt : Cids, val : Vals]
                 [] kind = "T" -> TipSets
                 [] kind = "V" -> [nn : VNames, beacon : Beacons, inst : U64s, round : U64s]
                 [] kind = "C" -> [chain : Chains \cup LongChains]
Alphabet(kind, f) == {t[f] : t \in Space(kind)}

MCInit == \E kind \in Kinds : \E t \in Space(kind) : x = <<kind, t>>
MCNext == FALSE /\ x' = x
MCSpec == MCInit /\ [][MCNext]_x

kind == x[1]
tup == x[2]
Neigh1 == UNION {{[tup EXCEPT ![f] = v] : v \in Alphabet(kind, f) \ {tup[f]}} : f \in FieldsOf(kind)}

\* C14: a change of any single field changes the signed bytes
InvSingleField == LET mine == Bytes(kind, tup) IN \A y \in Neigh1 : Bytes(kind, y) # mine
\* within one network (payload, VRF) / unconditionally (tipset) the layout is injective
\* (kind "C" has a single field: InvSingleField already compares every pair of chains)
InvGivenNetwork == kind # "C" =>
                   LET mine == Bytes(kind, tup) IN
                   \A y \in Space(kind) :
                      (y # tup /\ (kind \in {"P", "V"} => y.nn = tup.nn)) => Bytes(kind, y) # mine
\* the tipset layout is injective outright (real widths)
InvTipSetInjective == kind = "T" => LET mine == Bytes(kind, tup) IN \A y \in Space(kind) : y # tup => Bytes(kind, y) # mine
\* expected to FAIL for kinds P and V (documented assumption: network name fixed per network)
InvFull == LET mine == Bytes(kind, tup) IN
           \A y \in Space(kind) : (y # tup /\ Bytes(kind, y) = mine) => (PrintT(<<"VERIF_COLLISION", kind, tup, y>>) /\ FALSE)
\* the symbolic length is the sum of the field widths
RECURSIVE FlatLen(_)
FlatLen(f) == IF f = <<>> THEN 0 ELSE (IF "b" \in DOMAIN Head(f) THEN Len(Head(f).b) ELSE Head(f).w) + FlatLen(Tail(f))
InvLen == FlatLen(Bytes(kind, tup)) = SegLen(Segs(kind, tup))
=============================================================================

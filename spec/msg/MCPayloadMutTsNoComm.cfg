SPECIFICATION MCSpec
CONSTANTS
  BatchVariant = "code"
  Variant = "tsNoComm"
  WInt = 8
  WDigest = 32
  Mode = "real"
  Size = "small"
  Kinds = {"C"}
INVARIANTS InvSingleField
CHECK_DEADLOCK FALSE

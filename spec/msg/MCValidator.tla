---------------------------- MODULE MCValidator ----------------------------
(* Design check of Validator.tla and generator of the abstract message table.
   TLC enumerates the message space as *states*: the initial states are the "core" coordinates (step, round,
   value, sender, signature, ticket), one transition attaches a justification shape (and, in Mode "progress",
   a progress state), so that the 16 workers share the enumeration; states with st = "full" are the rows.
     Mode "content":  the whole message space at one progress where everything is relevant;
     Mode "progress": a small alphabet of messages x every progress state.
   Invariants compare the implementation-shaped verdict (checks in code order) with the declarative rules of
   property C05.  With Sentinel = FALSE (the rule after fix 74993e4) they hold; with Sentinel = TRUE (the
   MaxUint64 "any round" sentinel of the original code) TLC finds COMMIT(round MaxUint64) justified by PREPARE
   of another round -- the non-vacuity run; the rows with r = -1 replay it on the real validator.
   EmitRows prints every enumerated message as a tuple.                                                      *)
EXTENDS Validator
CONSTANTS Sentinel, EmitRows, Mode,
          NSlices, Slice   \* content mode enumerates the families whose (step, ticket, round, value) hash to Slice (mod NSlices)
VARIABLES c, j, g, st
vars == <<c, j, g, st>>

G0 == [di |-> 0, cr |-> 0, cph |-> "QUALITY"]
PhIdx == [QUALITY |-> 0, CONVERGE |-> 1, PREPARE |-> 2, COMMIT |-> 3, DECIDE |-> 4, INITIAL |-> 5, TERMINATED |-> 6, BOGUS |-> 7]
TkIdx == [none |-> 0, ok |-> 0, wronground |-> 1, othersigner |-> 2, absent |-> 3]
VIdx == [bot |-> 0, base |-> 1, ext |-> 2, bad |-> 3]
SliceOf(x) == (PhIdx[x.ph] + TkIdx[x.tk] + 3 * (x.r + 1) + 5 * VIdx[x.v]) % NSlices
CoreSmall == {x \in CoreAll : x.snd = "member" /\ x.sig = "ok" /\ x.tk \in {"none", "ok"} /\ x.v \in {"ext", "bot"} /\ x.r # 2}
PSpace == [di : ProgressDims.di, cr : ProgressDims.cr, cph : ProgressDims.cph]
Init == /\ st = "core" /\ j = JNone /\ g = G0
        /\ IF Mode = "content" THEN c \in {x \in CoreAll : SliceOf(x) = Slice} ELSE c \in CoreSmall
Next == /\ st = "core" /\ st' = "full" /\ c' = c
        /\ IF Mode = "content"
           THEN /\ g' = g
                /\ IF c \in CoreMsg THEN j' \in {JNone} \cup JFull ELSE j' \in JSmall
           ELSE \E js \in {JSmall} : \E ps \in {PSpace} : j' \in js /\ g' \in ps      \* (evaluate the sets once per state)

Row == st = "full"
X == Abs(Flat(c, j))
D_InSpace == Row => (Mode = "content" => InSpace(c, j))
Design(x) ==
  /\ (Content(x, TRUE, Sentinel) = "OK") <=> AllRules(x)                                \* accepted <=> every rule holds
  /\ (ByProgress(x, g) = "ok") <=> Relevant(x, g)
  /\ (Verdict(x, g, TRUE, Sentinel) = "OK") <=> (AllRules(x) /\ Relevant(x, g))         \* sound + complete when relevant
  /\ Verdict(x, g, FALSE, Sentinel) \in VerdictClasses \ {"OK"}                         \* no committee: never accepted
  /\ AllRules(x) => (Verdict(x, g, TRUE, Sentinel) # "Invalid" /\ Verdict(x, g, FALSE, Sentinel) # "Invalid")
  /\ Verdict(x, g, TRUE, Sentinel) \in VerdictClasses
D_Design == Row => Design(X)
RowString == c.ph \o "," \o ToString(c.r) \o "," \o c.v \o "," \o c.snd \o "," \o c.sig \o "," \o c.tk \o "," \o j.jph \o ","
             \o ToString(j.jr) \o "," \o j.jv \o "," \o j.jinst \o "," \o j.jsupp \o "," \o j.jS \o "," \o j.jagg
Emit == Row => ((EmitRows /\ Mode = "content") => PrintT(RowString))
=============================================================================

SPECIFICATION TSpec
CONSTANTS
  Lookback = 4
  TraceFile = "trace.ndjson"
CHECK_DEADLOCK FALSE

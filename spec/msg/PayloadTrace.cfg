SPECIFICATION TSpec
CONSTANTS
  BatchVariant = "code"
  Variant = "code"
  WInt = 8
  WDigest = 32
  TraceFile = "trace.ndjson"
CHECK_DEADLOCK FALSE

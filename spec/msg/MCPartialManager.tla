-------------------------- MODULE MCPartialManager --------------------------
(* Design check of PartialManager.tla: every interleaving of arrivals (genuine and, if Tamper, wire messages whose
   announced key is not the key of the signed chain, handed over by a faulty caller), lookups, discoveries, chain
   exchange admissions, own broadcasts, ticks, prunes and reads of the output queue, over small alphabets.
   `hist` (only with HistOn, simulation mode) records the operations for spec -> code replay by the driver. *)
EXTENDS PartialManager, Json
CONSTANTS Insts, ChainsC, Senders, JKs, Cap, CapOut, MaxArr, PruneAt, Tamper, WithBroadcast, WithLookup, HistOn, HistLen
VARIABLES hist
mcvars == <<mvars, hist>>

Msgs ==
  {[inst |-> i, slot |-> <<i, s, 0, j>>, ak |-> k, oc |-> o, jk |-> j, p1 |-> (k = o), fed |-> TRUE] :
     i \in Insts, s \in Senders, k \in ChainsC, o \in ChainsC, j \in JKs}
MsgSpace == {m \in Msgs : Tamper \/ m.ak = m.oc}

Rec(op) == hist' = IF HistOn THEN Append(hist, op) ELSE hist
MsgOp(name, m) == [op |-> name, inst |-> m.inst, snd |-> m.slot[2], ak |-> m.ak, oc |-> m.oc, jk |-> m.jk]
ChainOp(name, i, c) == [op |-> name, inst |-> i, chain |-> c]

Init == MgrInit([cap |-> Cap, capOut |-> CapOut]) /\ hist = <<>>
Next ==
  \/ \E m \in MsgSpace : Len(reg) < MaxArr /\ Arrive(Len(reg) + 1, m) /\ Rec(MsgOp("Arrive", m))
  \/ \E i \in Insts, c \in ChainsC : Notify(i, c) /\ Rec(ChainOp("Notify", i, c))
  \/ \E n \in PruneAt : Prune(n) /\ Rec([op |-> "Prune", n |-> n])
  \/ (WithLookup /\ \E m \in MsgSpace : Complete(m) /\ Rec(MsgOp("Complete", m)))
  \/ (WithLookup /\ \E i \in Insts, c \in ChainsC : Admit(i, c) /\ Rec(ChainOp("Admit", i, c)))
  \/ (WithBroadcast /\ \E i \in Insts, c \in ChainsC : Own(i, c) /\ Rec(ChainOp("Own", i, c)))
  \/ (WithBroadcast /\ Tick /\ Rec([op |-> "Tick"]))
  \/ (~HistOn /\ Take /\ UNCHANGED hist)
Spec == Init /\ [][Next]_mcvars

HistDone == (HistOn /\ Len(hist) = HistLen) => PrintT(<<"VERIF_HIST", ToJson(hist)>>)

ChainsTwo == {<<1, 2>>, <<1, 3>>}
ChainsThree == {<<1, 2>>, <<1, 3>>, <<1, 3, 5>>}
ChainsPrefix == {<<1>>, <<1, 2>>, <<1, 3>>}
ChainsSim == {<<1>>, <<1, 2>>, <<1, 3>>, <<1, 2, 4>>}
=============================================================================

SPECIFICATION Spec
CONSTANTS
  InferOnDiscovery = TRUE
  IndexByInstance = TRUE
  PruneInclusive = FALSE
  Stage2ChecksKey = TRUE
  Insts = {10}
  ChainsC <- ChainsTwo
  Senders = {1, 2}
  JKs = {"val"}
  Cap = 1
  CapOut = 2
  MaxArr = 3
  PruneAt = {11}
  Tamper = FALSE
  WithBroadcast = FALSE
  HistOn = FALSE
  HistLen = 0
  WithLookup = TRUE
INVARIANTS
  C13_MgrNoForeignChain
  C13_MgrSameAcceptance
  C13_MgrRoundTrip
  C13_MgrComplete
  Conf_AtMostOnce
  Conf_NoPruned
  Conf_Bounded
  Conf_IndexSound
CHECK_DEADLOCK FALSE

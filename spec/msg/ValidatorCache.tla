--------------------------- MODULE ValidatorCache ---------------------------
(* The validation cache of gpbft/validator.go as state (design level, C05 history independence / C13 shared cache).
   cachingValidator remembers, per instance and namespace (message / justification, full / partial), the identifiers
   of what it has validated and skips the checks on a hit (validator.go:196-206, 415-434).  The identifier of a message
   is its whole CBOR (here: all coordinates), the identifier of a justification is its CBOR plus the expected value key.
   Eviction (internal/caching: LRU groups, flip/flop halves) is over-approximated: any entries may vanish at any time.
   Invariant: whatever was validated before, in whatever order, the cached validator answers like the cache-less
   verdict function Content() of Validator.tla.  KeyMut names deviations for the non-vacuity runs:
     "nosig"  message identifier without the signature,   "noagg"  justification identifier without the aggregate.   *)
EXTENDS Validator
CONSTANT KeyMut
VARIABLES cache, last
cvars == <<cache, last>>

B == [ph |-> "COMMIT", r |-> 1, v |-> "ext", snd |-> "member", sig |-> "ok", tk |-> "none", jph |-> "PREPARE", jr |-> 0,
      jv |-> "same", jinst |-> "same", jsupp |-> "same", jS |-> "strong", jagg |-> "ok"]
Alphabet == {B, [B EXCEPT !.sig = "otherpayload"], [B EXCEPT !.sig = "othersigner"], [B EXCEPT !.snd = "zero"],
             [B EXCEPT !.jagg = "otherpayload"], [B EXCEPT !.jagg = "othersigners"], [B EXCEPT !.jS = "short"],
             [B EXCEPT !.jv = "other"], [B EXCEPT !.v = "base"], [B EXCEPT !.v = "base", !.jagg = "otherpayload"],
             [B EXCEPT !.ph = "DECIDE", !.r = 0, !.jph = "COMMIT"], [B EXCEPT !.ph = "DECIDE", !.r = 0, !.jph = "COMMIT", !.sig = "othersigner"]}

MsgId(m) == IF KeyMut = "nosig" THEN [m EXCEPT !.sig = "ok", !.snd = "member"] ELSE m
JId(m) == LET x == Abs(m) IN
          <<x.jph, x.jround, x.jv, x.jinst, x.jsupp, x.jS, IF KeyMut = "noagg" THEN "-" ELSE m.jagg, IF KeyMut = "noagg" THEN "-" ELSE x.jaggv,
            Expect(x).key>>

\* validateMessageWithVoteValueKey with the cache (full messages); same order of checks as Content()
JustificationCached(x, m) ==
  IF x.jph = "none" \/ x.jinst # "same" \/ x.jsupp # "same" \/ x.jv = "bad" THEN FALSE
  ELSE IF ~Expect(x).ok \/ ~RoundAccepted(Expect(x), x.jround, FALSE) \/ x.jv # Expect(x).key THEN FALSE
  ELSE IF <<"justification", JId(m)>> \in cache THEN TRUE                     \* hit: signers and aggregate are not looked at
  ELSE x.jS = "strong" /\ x.jaggv = Expect(x).key /\ x.jaggby = "claimed"
Cached(m) ==
  LET x == Abs(m) IN
  IF <<"message", MsgId(m)>> \in cache THEN "OK"
  ELSE IF x.snd # "member" \/ x.v = "bad" THEN "Invalid"
  ELSE IF x.ph = "DECIDE" /\ (x.r # 0 \/ x.v = "bot") THEN "Invalid"
  ELSE IF ~(x.sigv = x.v /\ x.sigby = "sender") THEN "Invalid"
  ELSE IF NeedsJ(x) THEN (IF JustificationCached(x, m) THEN "OK" ELSE "Invalid")
  ELSE IF x.jph # "none" THEN "Invalid" ELSE "OK"

Init == cache = {} /\ last = [m |-> B, res |-> "OK"]
Validate(m) == /\ last' = [m |-> m, res |-> Cached(m)]
               /\ cache' = IF Cached(m) = "OK"
                           THEN cache \cup {<<"message", MsgId(m)>>} \cup (IF NeedsJ(Abs(m)) THEN {<<"justification", JId(m)>>} ELSE {})
                           ELSE cache
Evict == \E s \in SUBSET cache : s # cache /\ cache' = s /\ UNCHANGED last
Next == (\E m \in Alphabet : Validate(m)) \/ Evict
HistoryIndependent == last.res = Content(Abs(last.m), TRUE, FALSE)
=============================================================================

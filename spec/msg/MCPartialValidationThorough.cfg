INIT Init
NEXT Next
CONSTANTS
  Lookback = 4
  Mut = "none"
  EmitRows = TRUE
  NSlices = 1
  Slice = 0
INVARIANTS D_Design Emit
CHECK_DEADLOCK FALSE

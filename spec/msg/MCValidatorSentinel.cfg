INIT Init
NEXT Next
CONSTANTS
  Lookback = 4
  Sentinel = TRUE
  EmitRows = FALSE
  Mode = "content"
  NSlices = 64
  Slice = 13
INVARIANTS D_InSpace D_Design Emit
CHECK_DEADLOCK FALSE

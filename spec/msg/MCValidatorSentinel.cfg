INIT Init
NEXT Next
CONSTANTS
  Lookback = 4
  Sentinel = TRUE
  EmitRows = FALSE
  Mode = "content"
  NSlices = 8
  Slice = 5
INVARIANTS D_InSpace D_Design Emit
CHECK_DEADLOCK FALSE

----------------------------- MODULE MerkleTrace -----------------------------
(* Table validation of the REAL chain-key computations against Merkle.tla (property C14, clause
   "the key identifying a chain is the same whether computed for the chain directly, for all its
   prefixes in batch, or read from cached prefix objects").
   Driver: harness/drivers/enc TestKeys.  For a random chain of n tipsets and each 1 <= k <= n one row
     direct            (&ECChain{first k tipsets}).Key()        fresh object
     tree              merkle.Tree(values[:k])
     batch             chain.KeysForPrefixes()[k-1]
     batchtree         merkle.BatchTree(values)[k-1]
     cached            chain.AllPrefixes()[k-1].Key()           key cache pre-populated
     prefix_cold/warm  chain.Prefix(k-1).Key()                  before / after chain.Key() was cached
     prefix_of_cached  chain.AllPrefixes()[n-1].Prefix(k-1).Key()
     shape             Tree(k) of Merkle.tla (emitted by TLC) interpreted with the real keccak
   all as hex strings; the driver compares nothing.                                             *)
EXTENDS Merkle, Json, TLCExt, TLC
CONSTANT TraceFile, MaxN
VARIABLES l, obs, bad, cnt
tvars == <<l, obs, bad, cnt>>

T == ndJsonDeserialize(TraceFile)
row == obs[2]
ZeroHex == "0000000000000000000000000000000000000000000000000000000000000000"
CountTab == [k \in 1..MaxN |-> Count(Tree(k))]

TInit == l = 1 /\ obs = <<0, [ev |-> "none"]>> /\ bad = {} /\ cnt = [rows |-> 0, keys |-> 0, maxn |-> 0, nonpow2 |-> 0]
TNext == /\ l <= Len(T)
         /\ l' = l + 1
         /\ obs' = <<l, T[l]>>
         /\ cnt' = IF T[l].ev = "Key"
                   THEN [cnt EXCEPT !.rows = @ + 1, !.keys = @ + 1, !.maxn = IF T[l].n > @ THEN T[l].n ELSE @,
                                    !.nonpow2 = @ + (IF T[l].k # Pow2(Depth(T[l].k)) THEN 1 ELSE 0)]
                   ELSE IF T[l].ev = "End" THEN cnt ELSE [cnt EXCEPT !.rows = @ + 1]
         /\ (T[l].ev = "End" => PrintT(<<"VERIF_CNT", ToJson(cnt)>>))

\* ------------------------------------------------------------------ property monitors (C14)
C14_KeysAgree == row.ev = "Key" =>
   /\ row.batch = row.direct                \* batch over all prefixes
   /\ row.batchtree = row.tree
   /\ row.tree = row.direct
   /\ row.cached = row.direct               \* cached prefix objects
   /\ row.prefix_cold = row.direct
   /\ row.prefix_warm = row.direct
   /\ row.prefix_of_cached = row.direct
\* ... and stays so after other prefix objects of the same chain have been used to build longer chains
C14_KeysAgreeAfterUse == row.ev = "KeyAfter" =>
   /\ row.cached = row.orig /\ row.cached_content = row.orig /\ row.chain_prefix = row.orig /\ row.cached_len = row.k
\* ... and a chain decoded into an object that held another chain (its key memoised) is the decoded chain: content and key
C14_DecodedKeyAgrees == row.ev = "KeyDecoded" =>
   /\ row.ok /\ row.reused = row.want /\ row.reused_content = row.want
   /\ row.reused_prefix = row.want /\ row.reused_prefix_content = row.want
\* the key binds the chain's length: the key of a proper prefix differs from the key of the next longer prefix
C14_KeyBindsLength == (row.ev = "Key" /\ row.k > 1 /\ T[obs[1] - 1].ev = "Key" /\ T[obs[1] - 1].n = row.n)
                         => T[obs[1] - 1].direct # row.direct
C14_ZeroChainKey == row.ev = "Zero" => row.empty = ZeroHex /\ row.nil = ZeroHex
\* ------------------------------------------------------------------ conformance
Conf_KeyShape == row.ev = "Key" => row.shape = row.direct /\ row.shape_k = row.k /\ row.count = CountTab[row.k]
Conf_Lens == row.ev = "Key" => /\ 1 <= row.k /\ row.k <= row.n /\ row.n <= MaxN
                               /\ row.cached_len = row.k /\ row.prefix_len = row.k
                               /\ row.batch_n = row.n /\ row.all_n = row.n /\ row.batchtree_n = row.n
Conf_Zero == row.ev = "Zero" => row.batch_len = 0 /\ row.all_len = 0 /\ row.tree0 = ZeroHex /\ row.batch0_len = 0
Conf_End == row.ev = "End" => row.rows = cnt.rows

Clauses == {"C14_KeysAgree", "C14_KeysAgreeAfterUse", "C14_DecodedKeyAgrees", "C14_KeyBindsLength", "C14_ZeroChainKey", "Conf_KeyShape", "Conf_Lens", "Conf_Zero", "Conf_End"}
Holds(c) == CASE c = "C14_KeysAgree" -> C14_KeysAgree [] c = "C14_KeysAgreeAfterUse" -> C14_KeysAgreeAfterUse [] c = "C14_DecodedKeyAgrees" -> C14_DecodedKeyAgrees [] c = "C14_KeyBindsLength" -> C14_KeyBindsLength
              [] c = "C14_ZeroChainKey" -> C14_ZeroChainKey [] c = "Conf_KeyShape" -> Conf_KeyShape
              [] c = "Conf_Lens" -> Conf_Lens [] c = "Conf_Zero" -> Conf_Zero [] c = "Conf_End" -> Conf_End
TStep == /\ TNext
         /\ LET nb == {c \in Clauses : ~(Holds(c))'} IN
              /\ bad' = bad \cup {<<l, c>> : c \in nb}
              /\ (nb = {} \/ Cardinality(bad) > 2000 \/ PrintT(<<"VERIF_BAD", l, nb>>))
TSpec == TInit /\ [][TStep]_tvars
=============================================================================

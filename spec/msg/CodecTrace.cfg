SPECIFICATION TSpec
CONSTANTS
  TraceFile = "trace.ndjson"
CHECK_DEADLOCK FALSE

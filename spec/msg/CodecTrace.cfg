SPECIFICATION TSpec
CONSTANTS
  Tier = "quick"
  TraceFile = "trace.ndjson"
  CasesFile = "cases.ndjson"
CHECK_DEADLOCK FALSE

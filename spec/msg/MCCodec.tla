------------------------------- MODULE MCCodec -------------------------------
(* Case generation from Codec.tla (spec -> code direction): TLC evaluates the case sets and writes
   them as NDJSON for the driver.  One state.                                                   *)
EXTENDS Codec, Json, SequencesExt, TLC
CONSTANT EmitFile
VARIABLE done
CaseSeq == SetToSeq(Cases)
MCInit == /\ ndJsonSerialize(EmitFile, CaseSeq)
          /\ PrintT(<<"VERIF_CASES", Cardinality(RoundTripCases), Cardinality(CorruptionCases), Cardinality(ZstdCases)>>)
          /\ done = TRUE
MCNext == FALSE /\ done' = done
MCSpec == MCInit /\ [][MCNext]_done
\* sanity of the generator (design level): every type has the three anchor bases, every item kind is hit
InvGen == /\ \A ty \in Types : Cardinality(Bases(ty)) >= 1
          /\ {c.k : c \in CorruptionCases} = {"uint", "int", "uint8", "bool", "bytes", "fix", "bigint", "bitfield", "cid", "cidbytes", "struct", "null", "slice", "chain"}
=============================================================================

------------------------------- MODULE Payload -------------------------------
(* Signing layouts of go-f3 as functions from fields to byte sequences (property C14, clause
   "the bytes a participant signs are a deterministic function of network name, instance, round,
   step, supplemental data and the full content of the value chain, and change whenever any one of
   these changes ..., as do the VRF ticket inputs with beacon, instance, round and network").

   Field values ARE byte strings (tuples of 0..255): a uint64 is its 8 base-256 digits, most
   significant first; commitments and chain keys are 32 bytes; a CID is its binary form; the network
   name and the beacon are variable-length strings.  A layout is a sequence of segments:
      [k |-> "b", v |-> bytes]              bytes written verbatim
      [k |-> "h", w |-> n, of |-> term]     n bytes that are an injective function of `term`
                                            (blake2b CID of a tipset key, merkle root of a chain)
   transcribing  Payload.MarshalForSigningWithValueKey (gpbft/types.go:198-222),
                 TipSet.MarshalForSigning              (gpbft/chain.go:95-108),
                 vrfSerializeSigInput                  (gpbft/vrf.go:19-38).
   `Variant` names deviations of the layout; "code" is the implementation, the others exist so
   that the design check can be shown to be non-vacuous (TLC must refute them).                *)
EXTENDS Merkle, Integers

CONSTANTS Variant,      \* "code" | "noRound" | "phaseInRoundSlot" | "tsNoPT" | "tsNoComm" | "vrfNoInst" | "noSep"
          WInt,         \* width of instance/round/epoch (8 in the code; 1 in the reduced collision search)
          WDigest       \* width of commitments / chain key (32 in the code)

B(v) == [k |-> "b", v |-> v]
H(w, of) == [k |-> "h", w |-> w, of |-> of]

Tag == <<71, 80, 66, 70, 84>>          \* "GPBFT"
VrfTag == <<86, 82, 70>>               \* "VRF"
Sep == <<58>>                          \* ":"
CidPrefix == <<1, 113, 160, 228, 2, 32>>   \* CIDv1 dag-cbor blake2b-256, 32-byte digest
Zeros(n) == [i \in 1..n |-> 0]

\* ------------------------------------------------------------------ tipset
\* ts = [epoch, comm, key, pt]
TipSetSegs(ts) ==
  <<B(ts.epoch)>>
  \o (IF Variant = "tsNoComm" THEN <<>> ELSE <<B(ts.comm)>>)
  \o <<B(CidPrefix), H(WDigest, <<"keycid", ts.key>>)>>
  \o (IF Variant = "tsNoPT" THEN <<>> ELSE <<B(ts.pt)>>)

\* ------------------------------------------------------------------ symbolic byte strings
\* The byte string of a layout is represented canonically as the sequence of its maximal runs of concrete bytes
\* [b |-> <<ints>>] separated by opaque blocks [h |-> term, w |-> width].  Under the symbolic-hash reading (an
\* opaque block never equals concrete bytes, two opaque blocks are equal iff same term and width) two layouts
\* denote the same bytes iff these sequences are equal; TLC never compares an integer with a term.
RECURSIVE FlatFrom(_, _)
FlatFrom(segs, run) ==
  IF segs = <<>> THEN (IF run = <<>> THEN <<>> ELSE <<[b |-> run]>>)
  ELSE LET s == Head(segs) IN
       IF s.k = "b" THEN FlatFrom(Tail(segs), run \o s.v)
       ELSE (IF run = <<>> THEN <<>> ELSE <<[b |-> run]>>) \o <<[h |-> s.of, w |-> s.w]>> \o FlatFrom(Tail(segs), <<>>)
Flat(segs) == FlatFrom(segs, <<>>)
RECURSIVE SegLen(_)
SegLen(segs) == IF segs = <<>> THEN 0
                ELSE (IF Head(segs).k = "b" THEN Len(Head(segs).v) ELSE Head(segs).w) + SegLen(Tail(segs))

\* ------------------------------------------------------------------ chain key (merkle root over tipset layouts)
RECURSIVE Subst(_, _)
Subst(t, chain) == IF t[1] = "L" THEN <<"L", Flat(TipSetSegs(chain[t[2] + 1]))>>
                   ELSE IF t[1] = "N" THEN <<"N", Subst(t[2], chain), Subst(t[3], chain)>>
                   ELSE t
ChainKeyTerm(chain) == Subst(Tree(Len(chain)), chain)
\* the value slot of the payload: a given key (MarshalForSigningWithValueKey) or the chain's key
\* val = <<"key", bytes>> | <<"chain", <<ts, ...>>>> ; the zero chain has the all-zero key
ValueSeg(val) == IF val[1] = "key" THEN B(val[2])
                 ELSE IF val[2] = <<>> THEN B(Zeros(WDigest))
                 ELSE H(WDigest, <<"root", ChainKeyTerm(val[2])>>)

\* ------------------------------------------------------------------ payload
\* p = [nn, inst, round, phase, comm, pt, val]
PayloadSegs(p) ==
  <<B(Tag)>> \o (IF Variant = "noSep" THEN <<>> ELSE <<B(Sep)>>) \o <<B(p.nn), B(Sep)>>
  \o <<B(<<p.phase>>)>>
  \o (IF Variant = "noRound" THEN <<>>
      ELSE IF Variant = "phaseInRoundSlot" THEN <<B(Zeros(WInt - 1) \o <<p.phase>>)>>
      ELSE <<B(p.round)>>)
  \o <<B(p.inst), B(p.comm), ValueSeg(p.val), B(p.pt)>>

\* ------------------------------------------------------------------ VRF input
\* v = [nn, beacon, inst, round]
VrfSegs(v) ==
  <<B(VrfTag), B(Sep), B(v.nn), B(Sep), B(v.beacon), B(Sep)>>
  \o (IF Variant = "vrfNoInst" THEN <<>> ELSE <<B(v.inst)>>)
  \o <<B(v.round)>>

\* ------------------------------------------------------------------ generic
Segs(kind, x) == CASE kind = "P" -> PayloadSegs(x)
                   [] kind = "T" -> TipSetSegs(x)
                   [] kind = "V" -> VrfSegs(x)
                   [] kind = "C" -> <<ValueSeg(<<"chain", x.chain>>)>>
Bytes(kind, x) == Flat(Segs(kind, x))
FieldsOf(kind) == CASE kind = "P" -> {"nn", "inst", "round", "phase", "comm", "pt", "val"}
                    [] kind = "T" -> {"epoch", "comm", "key", "pt"}
                    [] kind = "V" -> {"nn", "beacon", "inst", "round"}
                    [] kind = "C" -> {"chain"}
DiffFields(kind, x, y) == {f \in FieldsOf(kind) : x[f] # y[f]}
=============================================================================

SPECIFICATION MCSpec
CONSTANTS
  BatchVariant = "code"
  Variant = "code"
  WInt = 8
  WDigest = 32
  Mode = "real"
  Size = "small"
  Kinds = {"V"}
INVARIANTS InvFull
CHECK_DEADLOCK FALSE

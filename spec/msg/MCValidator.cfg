INIT Init
NEXT Next
CONSTANTS
  Lookback = 4
  Sentinel = FALSE
  EmitRows = TRUE
  Mode = "content"
  NSlices = 32
  Slice = 1
INVARIANTS D_InSpace D_Design Emit
CHECK_DEADLOCK FALSE

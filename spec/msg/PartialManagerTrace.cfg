SPECIFICATION TSpec
CONSTANTS
  InferOnDiscovery = TRUE
  IndexByInstance = TRUE
  PruneInclusive = FALSE
  Stage2ChecksKey = TRUE
  TraceFile = "trace.ndjson"
CHECK_DEADLOCK FALSE

---------------------------- MODULE MCCertChain ----------------------------
(* All manifests (look-back 2..4, initial instance 0..2), all instances <= MaxI and all strictly ordered
   head sequences over a small epoch range: the certchain rule equals the node rule.                  *)
EXTENDS CertChain, TLC
CONSTANTS MaxI, MaxE
VARIABLES s, i
vars == <<s, i>>
RECURSIVE Inc(_, _, _)
Inc(k, lo, hi) == IF k = 0 THEN {<<>>} ELSE UNION {{<<x>> \o t : t \in Inc(k - 1, x, hi)} : x \in lo..hi}
Init == /\ \E L \in 2..4, init \in 0..2, k \in 0..4, nm \in {0, 3} :
             \E hs \in Inc(k, 1, MaxE) :
                s = [L |-> L, init |-> init, bootE |-> 1, nullMod |-> nm, nullRem |-> 1, heads |-> hs]
        /\ i \in 0..MaxI
Next == UNCHANGED vars
D_SameRule == i >= s.init => CertchainCommittee(s, i) = NodeCommittee(s, i)
D_FromFinality == (i >= s.init + s.L /\ HasCert(s, i - s.L)) => NodeCommittee(s, i).tab = TsAt(s, HeadOf(s, i - s.L))
=============================================================================

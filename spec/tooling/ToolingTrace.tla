------------------------------ MODULE ToolingTrace ------------------------------
(* Validation of recorded behaviour of the real test tooling against SimOracle.tla and CertChain.tla
   (driver: harness/drivers/tooling).  One NDJSON line per run / call:
     Forged    one sim.Simulation.Run in which the adversary handed a forged decision to Host.ReceiveDecision
               (fields of the decision, the instance's power table in bit-field order, signer indices, did Run err)
     Disagree  one Run in which an adversary holding a strong quorum made the two honest participants decide
               vals[1], vals[2] at instance `at`
     CCGen     certchain.Generate over a linear EC (recorded for the scenario only)
     CC        certchain.GetCommittee(i) and the production gpbftInputs.GetCommittee(i), same EC, same certificates
     End       appended by the check (clauses are evaluated on the current state, i.e. one line late)
   C19_* are clauses of the property (failure = VIOLATION), Conf_* conformance with the implementation-shaped
   reference where the property is silent (failure = spec drift).                                     *)
EXTENDS Integers, Sequences, FiniteSets, Json, TLC, TLCExt
CONSTANT TraceFile
VARIABLES l, obs, bad
tvars == <<l, obs, bad>>

SO == INSTANCE SimOracle WITH Dev <- "none"
CCM == INSTANCE CertChain WITH Dev <- "none"

TraceLog == ndJsonDeserialize(TraceFile)
NoObs == [kind |-> "none"]
Ev == TraceLog[l]
IsEvent(e) == l <= Len(TraceLog) /\ TraceLog[l].ev = e /\ l' = l + 1
SeqToSet(s) == {s[i] : i \in DOMAIN s}

TInit == l = 1 /\ obs = NoObs /\ bad = {}
TrForged == IsEvent("Forged")
            /\ obs' = [kind |-> "Forged", injected |-> Ev.injected, err |-> Ev.err, tab |-> Ev.powers,
                       d |-> [instOK |-> Ev.label = "ok", phase |-> Ev.phase, round |-> Ev.round, val |-> Ev.val, sigOK |-> Ev.sig,
                              signers |-> {x + 1 : x \in SeqToSet(Ev.sidx)}]]
TrDisagree == IsEvent("Disagree") /\ obs' = [kind |-> "Disagree", differ |-> Ev.differ, vals |-> Ev.vals, err |-> Ev.err]
TrCCGen == IsEvent("CCGen") /\ obs' = [kind |-> "CCGen", generr |-> Ev.generr, certs |-> Ev.certs, stored |-> Ev.stored]
TrCC == IsEvent("CC")
        /\ obs' = [kind |-> "CC", i |-> Ev.i, cc |-> [err |-> Ev.cc.err, tab |-> Ev.cc.tab, beacon |-> Ev.cc.beacon],
                   node |-> [err |-> Ev.node.err, tab |-> Ev.node.tab, beacon |-> Ev.node.beacon],
                   s |-> [L |-> Ev.L, init |-> Ev.init, bootE |-> Ev.bootE, nullMod |-> Ev.nullMod, nullRem |-> Ev.nullRem, heads |-> Ev.heads]]
TrEnd == IsEvent("End") /\ obs' = NoObs
TNext == TrForged \/ TrDisagree \/ TrCCGen \/ TrCC \/ TrEnd

IsF == obs.kind = "Forged" /\ obs.injected
IsD == obs.kind = "Disagree"
IsCC == obs.kind = "CC"
C19_SimRejectsWeakQuorum == IsF => SO!S_RejectsWeakQuorum(obs.d, obs.tab, obs.err)
C19_SimRejectsWrongFields == IsF => SO!S_RejectsWrongFields(obs.d, obs.tab, obs.err)
C19_SimAcceptsGenuine == IsF => SO!S_AcceptsGenuine(obs.d, obs.tab, obs.err)
C19_SimDetectsDisagreement == IsD => SO!S_DetectsDisagreement(obs.vals, obs.err)
C19_CertchainCommittee == IsCC => CCM!CC_SameAsNode(obs.s, obs.i, obs.cc, obs.node)
\* conformance: the adversary got to inject; rounding-sensitive signer sets follow the scaled rule; the scenario did what it says
Conf_Injected == obs.kind = "Forged" => obs.injected
Conf_SimExact == IsF => (obs.err = SO!RunErr(obs.d, obs.tab))
Conf_DisagreeScenario == IsD => /\ SO!Completed(obs.vals)
                                /\ obs.differ = SO!Disagree(obs.vals)
                                /\ ~obs.differ => ~obs.err
Conf_CertchainGenerates == obs.kind = "CCGen" => (obs.generr = "" /\ obs.certs = 9)
Conf_NodeCommittee == IsCC => LET m == CCM!NodeCommittee(obs.s, obs.i) IN
                                obs.node.err = m.err /\ (~m.err => (obs.node.tab = m.tab /\ obs.node.beacon = m.beacon))

Clauses == {"C19_SimRejectsWeakQuorum", "C19_SimRejectsWrongFields", "C19_SimAcceptsGenuine", "C19_SimDetectsDisagreement",
            "C19_CertchainCommittee", "Conf_Injected", "Conf_SimExact", "Conf_DisagreeScenario", "Conf_CertchainGenerates", "Conf_NodeCommittee"}
PropClauses == Clauses \ {"Conf_Injected", "Conf_SimExact", "Conf_DisagreeScenario", "Conf_CertchainGenerates", "Conf_NodeCommittee"}
Holds(x) == CASE x = "C19_SimRejectsWeakQuorum" -> C19_SimRejectsWeakQuorum [] x = "C19_SimRejectsWrongFields" -> C19_SimRejectsWrongFields
              [] x = "C19_SimAcceptsGenuine" -> C19_SimAcceptsGenuine [] x = "C19_SimDetectsDisagreement" -> C19_SimDetectsDisagreement
              [] x = "C19_CertchainCommittee" -> C19_CertchainCommittee [] x = "Conf_Injected" -> Conf_Injected
              [] x = "Conf_SimExact" -> Conf_SimExact [] x = "Conf_DisagreeScenario" -> Conf_DisagreeScenario
              [] x = "Conf_CertchainGenerates" -> Conf_CertchainGenerates [] x = "Conf_NodeCommittee" -> Conf_NodeCommittee
TStep == /\ TNext
         /\ LET nb == {x \in Clauses : ~Holds(x)} IN
              /\ bad' = bad \cup {<<l - 1, x>> : x \in nb}
              \* print at most ~40 failing lines, but never let conformance failures hide a property clause
              /\ (nb = {} \/ (Cardinality(bad) > 40 /\ (nb \cap PropClauses = {} \/ Cardinality({b \in bad : b[2] \in PropClauses}) > 40))
                          \/ \A x \in nb : PrintT(<<"VERIF_BAD", l - 1, {x}>>))      \* one short line per clause (TLC wraps long values)
TSpec == TInit /\ [][TStep]_tvars
=============================================================================

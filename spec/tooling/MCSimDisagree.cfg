INIT InitD
NEXT Next
CONSTANTS
  Dev = "none"
  Combos = "single"
  Tables <- TablesQuick
INVARIANTS D_Scenario Emit
CHECK_DEADLOCK FALSE

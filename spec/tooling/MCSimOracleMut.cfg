INIT InitF
NEXT Next
CONSTANTS
  Dev = "zero_threshold"
  Combos = "single"
  Tables <- TablesQuick
INVARIANTS D_Classes D_PassCertifies D_NoFalseAlarm D_TwoOfFour D_Intersect Emit
CHECK_DEADLOCK FALSE

INIT Init
NEXT Next
CONSTANTS
  Dev = "none"
  MaxI = 8
  MaxE = 5
INVARIANTS D_SameRule D_FromFinality
CHECK_DEADLOCK FALSE

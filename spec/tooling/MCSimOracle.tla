---------------------------- MODULE MCSimOracle ----------------------------
(* Exhaustive evaluation of SimOracle.tla and generation of the forged decisions / disagreement scenarios
   that the driver injects into a real sim.Simulation.  In the exhaustive model the table order is the
   participant order: participants 1..3 are honest, participant 4 is the adversary.                   *)
EXTENDS SimOracle, TLC, Json
CONSTANTS Tables,      \* power tables <<h1, h2, h3, adversary>>
          Combos       \* "single": at most one field of the decision is wrong; "all": every combination
TablesQuick == {<<1, 1, 1, 1>>, <<3, 3, 3, 1>>, <<2, 2, 1, 1>>, <<10, 10, 10, 14>>}
TablesThorough == TablesQuick \cup {<<5, 5, 5, 7>>, <<4, 1, 1, 1>>, <<1, 2, 3, 2>>, <<7, 7, 7, 10>>, <<100, 1, 100, 1>>}
VARIABLES tab, at, label, phase, round, val, sig, signers, differ, kind
vars == <<tab, at, label, phase, round, val, sig, signers, differ, kind>>

D == [instOK |-> label = "ok", phase |-> phase, round |-> round, val |-> val, sigOK |-> sig, signers |-> signers]
Wrong == (IF label = "ok" THEN 0 ELSE 1) + (IF phase = "DECIDE" THEN 0 ELSE 1) + (IF round = 0 THEN 0 ELSE 1)
         + (IF val = "good" THEN 0 ELSE 1) + (IF sig THEN 0 ELSE 1)

\* forged decisions reported by the adversary at instance `at` (0: before anything ran, 1: after a full instance)
InitF == /\ kind = "Forged" /\ differ = FALSE
         /\ tab \in Tables /\ at \in 0..1
         /\ label \in {"ok", "future", "other"} /\ (label = "other" => at = 1)
         /\ phase \in {"DECIDE", "COMMIT", "PREPARE"} /\ round \in 0..1
         /\ val \in {"good", "empty", "wrongbase"} /\ sig \in BOOLEAN
         /\ signers \in SUBSET (1..4)
         /\ (Combos = "single" => Wrong <= 1)
\* an adversary holding a strong quorum alone makes two honest participants decide (different / equal) values
InitD == /\ kind = "Disagree" /\ differ \in BOOLEAN /\ at \in 0..1
         /\ tab \in {<<1, 1, 4>>, <<1, 1, 5>>, <<2, 1, 9>>}
         /\ label = "ok" /\ phase = "DECIDE" /\ round = 0 /\ val = "good" /\ sig = TRUE /\ signers = {3}
Next == UNCHANGED vars

IsF == kind = "Forged"
\* the three classes partition the forged decisions; only rounding-sensitive signer sets are left open
D_Classes == IsF => /\ ~(MustReject(D, tab) /\ MustAccept(D, tab))
                    /\ (MustReject(D, tab) \/ MustAccept(D, tab) \/ (FieldsOK(D) /\ ScaledStrong(signers, tab) # RawStrong(signers, tab)))
\* a run that passes certifies the facts of the statement
D_PassCertifies == (IsF /\ ~RunErr(D, tab)) => (Acceptable(D, tab) /\ ~MustReject(D, tab))
D_NoFalseAlarm == (IsF /\ MustAccept(D, tab)) => ~RunErr(D, tab)
\* 2 of 4 equal members are not a strong quorum, 3 of 4 are
D_TwoOfFour == (IsF /\ tab = <<1, 1, 1, 1>>) => (ScaledStrong(signers, tab) <=> Cardinality(signers) >= 3)
\* two acceptable signer sets share a member with power: no two conflicting decisions can both pass
D_Intersect == (IsF /\ ScaledStrong(signers, tab)) =>
                  \A S2 \in SUBSET (1..4) : ScaledStrong(S2, tab) => PowerOf(signers \cap S2, Scaled(tab)) > 0
\* the disagreement scenarios are feasible: the adversary alone is a strong quorum, the honest ones are not
D_Scenario == kind = "Disagree" => (ScaledStrong({3}, tab) /\ RawStrong({3}, tab) /\ ~ScaledStrong({1, 2}, tab))

SetToSeq(S) == LET F[T \in SUBSET S] == IF T = {} THEN <<>> ELSE LET x == CHOOSE y \in T : \A z \in T : y <= z IN <<x>> \o F[T \ {x}] IN F[S]
Emit == PrintT(ToJson([kind |-> kind, tab |-> tab, at |-> at, label |-> label, phase |-> phase, round |-> round, val |-> val,
                       sig |-> sig, signers |-> [i \in DOMAIN SetToSeq(signers) |-> SetToSeq(signers)[i] - 1], differ |-> differ]))
=============================================================================

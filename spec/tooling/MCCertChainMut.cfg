INIT Init
NEXT Next
CONSTANTS
  Dev = "index_plus_one"
  MaxI = 8
  MaxE = 5
INVARIANTS D_SameRule D_FromFinality
CHECK_DEADLOCK FALSE

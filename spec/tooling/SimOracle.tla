------------------------------ MODULE SimOracle ------------------------------
(* Property C19, first half: the simulator (sim.Simulation.Run) is the oracle of ~280 tests, so it must
   report an error whenever a participant's reported decision is not acceptable, and whenever honest
   participants that completed an instance disagree.

   A power table is a sequence of raw powers in the table's own order (the order of the signer bit-field).
   A reported decision d is a record
     instOK  : the decision names the instance whose base / supplemental data / table it was built for,
               and that instance has begun (FALSE: an instance that does not exist, or another one)
     phase   : "DECIDE", "COMMIT", "PREPARE", ...        round : Nat
     val     : "good" (non-empty chain on the instance's base), "empty", "wrongbase"
     sigOK   : the aggregate signature verifies for the signer set over the reported vote
     signers : set of table indices                                                                  *)
EXTENDS Integers, Sequences, FiniteSets

CONSTANT Dev     \* "none", or "zero_threshold": the required power is computed from zero (sim/ec.go before 2b1e638)

SumSeq(s) == LET F[i \in 0..Len(s)] == IF i = 0 THEN 0 ELSE s[i] + F[i - 1] IN F[Len(s)]
PowerOf(S, v) == SumSeq([i \in DOMAIN v |-> IF i \in S THEN v[i] ELSE 0])
DivCeil(a, b) == (a + b - 1) \div b
\* gpbft/powertable.go: scaled power = floor(0xffff * power / total); gpbft.IsStrongQuorum on scaled values
Scaled(tab) == [i \in DOMAIN tab |-> (65535 * tab[i]) \div SumSeq(tab)]
IsStrongQuorum(part, whole) == part >= DivCeil(2 * whole, 3)
ScaledStrong(S, tab) == IsStrongQuorum(PowerOf(S, Scaled(tab)), SumSeq(Scaled(tab)))
RawStrong(S, tab) == 3 * PowerOf(S, tab) >= 2 * SumSeq(tab)

FieldsOK(d) == d.instOK /\ d.phase = "DECIDE" /\ d.round = 0 /\ d.val = "good" /\ d.sigOK
\* acceptability of a reported decision for its instance (the predicate a faithful simulator enforces)
Acceptable(d, tab) == FieldsOK(d) /\ ScaledStrong(d.signers, tab)
\* where the statement fixes the verdict independently of how power is rounded
MustReject(d, tab) == ~FieldsOK(d) \/ (~ScaledStrong(d.signers, tab) /\ ~RawStrong(d.signers, tab))
MustAccept(d, tab) == FieldsOK(d) /\ ScaledStrong(d.signers, tab) /\ RawStrong(d.signers, tab)

\* implementation-shaped: what Run reports (an error or not) after the decision was handed to Host.ReceiveDecision
StrongD(S, tab) == IF Dev = "zero_threshold" THEN TRUE ELSE ScaledStrong(S, tab)
RunErr(d, tab) == ~(FieldsOK(d) /\ StrongD(d.signers, tab))

\* honest participants that completed the instance (vals: the value each decided, 0 = none) disagree
Completed(vals) == \A i \in DOMAIN vals : vals[i] # 0
Disagree(vals) == Completed(vals) /\ \E i, j \in DOMAIN vals : vals[i] # vals[j]

\* ------------------------------------------------------------------ clauses over one observed run (err: Run returned an error)
S_RejectsWeakQuorum(d, tab, err) == (FieldsOK(d) /\ ~ScaledStrong(d.signers, tab) /\ ~RawStrong(d.signers, tab)) => err
S_RejectsWrongFields(d, tab, err) == ~FieldsOK(d) => err
S_AcceptsGenuine(d, tab, err) == MustAccept(d, tab) => ~err
S_DetectsDisagreement(vals, err) == Disagree(vals) => err
=============================================================================

------------------------------ MODULE CertChain ------------------------------
(* Property C19, second half: certchain.CertChain (the generator / validator of certificate chains used by
   tests) must derive the committee of an instance by the same look-back rule as a node
   (consensus_inputs.go:192-267): the initial committee inside the look-back window, afterwards the power
   table and beacon at the head finalized `L` instances earlier.

   EC is a linear chain, one tipset per epoch except null epochs (e > 0 with e % nullMod = nullRem; the
   tipset "at" a null epoch is the previous one).  The power table changes at every tipset, so a table is
   identified by the epoch of its tipset.  A scenario is a record
      L, init, bootE, nullMod, nullRem : Nat          heads : Seq(Nat)   heads[j] = epoch of the head finalized by
                                                                          instance init + j - 1                  *)
EXTENDS Integers, Sequences, FiniteSets

CONSTANT Dev     \* "none", or "index_plus_one": certchain's look-back index before c404c44

IsNull(s, e) == e > 0 /\ s.nullMod > 1 /\ e % s.nullMod = s.nullRem
TsAt(s, e) == IF IsNull(s, e) THEN e - 1 ELSE e          \* nullMod >= 2: never two null epochs in a row
HasCert(s, i) == i >= s.init /\ i < s.init + Len(s.heads)
HeadOf(s, i) == s.heads[i - s.init + 1]
Err == [err |-> TRUE, tab |-> -1, beacon |-> -1]
Com(t) == [err |-> FALSE, tab |-> t, beacon |-> t]

\* the node's rule (the initial committee is EC's at the bootstrap tipset)
NodeCommittee(s, i) ==
  IF i < s.init + s.L THEN Com(TsAt(s, s.bootE))
  ELSE IF HasCert(s, i - s.L) THEN Com(TsAt(s, HeadOf(s, i - s.L)))
  ELSE Err

\* certchain.GetCommittee (certchain/certchain.go:55-72)
CertchainCommittee(s, i) ==
  IF i < s.init + s.L THEN Com(TsAt(s, s.bootE))
  ELSE LET idx == (i - s.L - s.init) + (IF Dev = "index_plus_one" THEN 1 ELSE 0) IN
       IF idx >= Len(s.heads) THEN Err ELSE Com(TsAt(s, s.heads[idx + 1]))

\* ------------------------------------------------------------------ clause over an observed pair
\* cc, node = [err, tab, beacon] as returned by certchain.GetCommittee / by the production gpbftInputs.GetCommittee
CC_SameAsNode(s, i, cc, node) ==
  LET m == NodeCommittee(s, i) IN
  /\ cc.err = m.err
  /\ ~m.err => (cc.tab = m.tab /\ cc.beacon = m.beacon)
  /\ (~cc.err /\ ~node.err) => (cc.tab = node.tab /\ cc.beacon = node.beacon)
=============================================================================

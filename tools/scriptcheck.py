#!/usr/bin/env python3
"""usage: scriptcheck.py attacks/<name>.json  -- confirms with TLC that the schedule is a behaviour of the mutant per-message model that ends in a
violation (NoAttack violated), and that the unmutated model does not follow it to a violation."""
import os, sys, json
HERE = os.path.dirname(os.path.abspath(__file__))
sys.path.insert(0, HERE); sys.path.insert(0, os.path.join(os.path.dirname(HERE), "checks"))
import vlib, conslib
att = json.load(open(sys.argv[1]))
m = conslib.MODELS[att["model"]]
script = "".join(json.dumps(s) + "\n" for s in att["steps"]).encode()
def cfg(over):
    lines = ["SPECIFICATION SSpec2", "CONSTANTS", "  H = %s" % m.get("H", "{1, 2, 3}"), "  B = %s" % m.get("B", "{4}"), "  Power <- %s" % m.get("Power", "Power4"),
             "  Chains <- %s" % m["Chains"], "  MaxRound = 2", "  Rank <- RankId", "  Lookahead = 0", "  Order <- %s" % m.get("Order", "Order4"), "  Input <- %s" % m["Input"],
             "  Depth = 100000", "  Noop = TRUE", '  ScriptFile = "script.ndjson"'] + over + ["INVARIANT NoAttack", "CHECK_DEADLOCK FALSE"]
    return ("\n".join(lines) + "\n").encode()
for name, over in (("mutant", ["  " + att["mutant"]]), ("unmutated", [])):
    r = vlib.tlc(conslib.SPECDIR, "ScriptCheck", "sc.cfg", workdir="/verif/build/scratch/scriptcheck-" + name, workers=1, timeout=300,
                 extra_files={"sc.cfg": cfg(over), "script.ndjson": script})
    print(name, "violated:", r.violated, "error:", (r.error or "")[:300], "states:", r.distinct, "of", len(att["steps"]) + 1)

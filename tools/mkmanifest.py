#!/usr/bin/env python3
"""Assemble /verif/MANIFEST.json from the MANIFEST dict of every checks/<ID>.py (one source of truth)."""
import importlib, json, os, sys
HERE = os.path.dirname(os.path.abspath(__file__))
ROOT = os.path.dirname(HERE)
sys.path.insert(0, HERE); sys.path.insert(0, os.path.join(ROOT, "checks"))

NA_REASONS = {}
na_file = os.path.join(ROOT, "checks", "not_applicable.json")
if os.path.exists(na_file):
    NA_REASONS = json.load(open(na_file))

def main():
    props = [json.loads(l) for l in open(os.path.join(ROOT, "properties.jsonl"))]
    checks, na = [], []
    for p in props:
        pid = p["id"]
        path = os.path.join(ROOT, "checks", pid + ".py")
        mod = importlib.import_module(pid) if os.path.exists(path) else None
        m = getattr(mod, "MANIFEST", None) if mod else None
        if not m or pid in NA_REASONS:
            na.append(dict(property_id=pid, reason=NA_REASONS.get(pid, "no check registered in this revision of /verif (planned, see DESIGN.md section 6)")))
            continue
        c = dict(property_id=pid,
                 quick_cmd="python3 tools/check.py %s --tier quick" % pid,
                 thorough_cmd="python3 tools/check.py %s --tier thorough" % pid,
                 evidence_file="/verif/evidence/%s.json" % pid,
                 replay_cmd_template="python3 tools/check.py %s --replay {path}" % pid,
                 engine="tlc",
                 level_claimed=dict(category=getattr(mod, "LEVEL", "model_checking"), text=m["text"], design_ref=m.get("design_ref", "DESIGN.md section 6, " + pid)),
                 level_note=m["note"], technique=m["technique"])
        checks.append(c)
    man = dict(version=1,
               setup_cmd="python3 tools/setup.py",
               hooks=dict(guard="verif (Go build tag)",
                          enable="go test -tags verif -overlay /verif/build/<ID>/overlay.json -c ./zz_verif/<driver>/ (run from /repo; harness files live in /verif/harness and are injected by -overlay, nothing is committed to /repo)",
                          baseline_off_cmd="cd /repo && GOFLAGS=-mod=mod GOPROXY=off go test -json -vet=off -count=1 -timeout 25m ./...",
                          source_commits=[], add_only=True),
               engines=[dict(name="tlc", path="/opt/veriftools/tla/tla2tools.jar", serves_properties=[c["property_id"] for c in checks],
                             kind_free_text="TLA+ specifications under /verif/spec model-checked by TLC; bound to the code by trace validation (drivers under /verif/harness record NDJSON from the real code, *Trace.tla specs replay them) and by replay of TLC-generated behaviours")],
               checks=checks,
               notes="Exit codes: 0 held, 1 VIOLATION (a property monitor failed on behaviour of the real code), 2 inconclusive (build failure, TLC error, spec drift). See DESIGN.md section 4.",
               not_applicable=na)
    json.dump(man, open(os.path.join(ROOT, "MANIFEST.json"), "w"), indent=1)
    print("checks:", [c["property_id"] for c in checks], "not_applicable:", [n["property_id"] for n in na])

main()

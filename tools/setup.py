#!/usr/bin/env python3
"""MANIFEST.setup_cmd: offline warm-up. Builds go-f3 and every driver binary once so that the
checks' own rebuilds (which always rebuild from /repo's current tree) hit the Go build cache."""
import os, sys, subprocess
sys.path.insert(0, os.path.dirname(os.path.abspath(__file__)))
import vlib

def main():
    os.makedirs(vlib.BUILD, exist_ok=True)
    r = subprocess.run(["go", "build", "./..."], cwd=vlib.REPO, env=vlib.goenv())
    if r.returncode != 0:
        print("go build failed"); sys.exit(1)
    d = os.path.join(vlib.HARNESS, "drivers")
    ok = True
    for name in sorted(os.listdir(d)):
        if not os.path.isdir(os.path.join(d, name)):
            continue
        try:
            vlib.build_driver(name, os.path.join(vlib.BUILD, "setup"))
        except Exception as e:
            ok = False
            print("driver %s failed to build: %s" % (name, str(e)[:2000]))
    r = subprocess.run(["java", "-cp", vlib.TLA_CP, "tlc2.TLC", "-h"], capture_output=True)
    print("setup done, drivers ok=%s" % ok)
    sys.exit(0 if ok else 1)

main()

#!/bin/bash
# usage: seedeval.sh <PID> <X> [tier] -> verifies the seed /tmp/seedout/<PID>-<X> and runs the PID check on it; appends to /tmp/seedeval.log
pid=$1; x=$2; tier=${3:-quick}
d=/tmp/seedout/$pid-$x
[ -f $d/patch.diff ] || { echo "$pid-$x missing"; exit 1; }
v=$(/verif/tools/seedverify.sh $d pkg 2>&1 | tail -1)
m=$(/verif/tools/mutcheck.sh $pid --patch $d/patch.diff $tier 2>&1 | grep -E "exit=|INCONCLUSIVE|what:" | cut -c1-260 | awk '/what:/{n++; if(n>2) next} {print}' | tr '\n' '|')
echo "$(date +%H:%M) $v || check($tier): $m" >> /tmp/seedeval.log

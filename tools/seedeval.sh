#!/bin/bash
# usage: seedeval.sh <PID> <X> [tier] [checkPID]  -> (re)verifies the seed /verif/seeded/<PID>-<X> (copied from /tmp/seedout if needed) in a private
# worktree and runs the check of checkPID (default PID) against it; appends the outcome to /verif/seeded/<PID>-<X>/eval.txt and /tmp/seedeval.log
pid=$1; x=$2; tier=${3:-quick}; cpid=${4:-$pid}
d=/verif/seeded/$pid-$x
if [ ! -f $d/patch.diff ]; then mkdir -p $d; cp /tmp/seedout/$pid-$x/patch.diff /tmp/seedout/$pid-$x/meta.json $d/ 2>/dev/null; cp /tmp/seedout/$pid-$x/*demo*.go $d/ 2>/dev/null; fi
[ -f $d/patch.diff ] || { echo "$pid-$x missing"; exit 1; }
if ! grep -q "^verify:" $d/eval.txt 2>/dev/null; then
  v=$(/verif/tools/seedverify.sh $d pkg 2>&1 | tail -1)
  echo "verify: $v" >> $d/eval.txt
fi
m=$(/verif/tools/mutcheck.sh $cpid --patch $d/patch.diff $tier 2>&1 | grep -E "exit=|INCONCLUSIVE|what:" | cut -c1-260 | awk '/what:/{n++; if(n>2) next} {print}' | tr '\n' '|')
echo "check $cpid $tier @$(git -C /verif rev-parse --short HEAD): $m" >> $d/eval.txt
echo "$(date +%H:%M) $pid-$x check($cpid $tier): $(echo "$m" | grep -o 'exit=[0-9]*') $(grep '^verify' $d/eval.txt | cut -c1-140)" >> /tmp/seedeval.log

#!/usr/bin/env python3
"""Entry point of every quick/thorough command:  python3 tools/check.py <ID> --tier quick|thorough
   exit 0  property held on everything explored (KNOWN-FINDING lines possible)
   exit 1  VIOLATION property=<id> replay=<path>   (a property monitor failed on behaviour of the real code)
   exit 2  inconclusive: build failure, TLC error/timeout, spec drift, vacuous coverage (never an alarm)"""
import argparse, importlib, os, sys, traceback, json
sys.path.insert(0, os.path.dirname(os.path.abspath(__file__)))
sys.path.insert(0, os.path.join(os.path.dirname(os.path.dirname(os.path.abspath(__file__))), "checks"))
import vlib


def main():
    ap = argparse.ArgumentParser()
    ap.add_argument("pid")
    ap.add_argument("--tier", default=os.environ.get("VERIF_TIER", "quick"), choices=["quick", "thorough"])
    ap.add_argument("--seed", type=int, default=int(os.environ.get("VERIF_SEED", "1") or 1))
    ap.add_argument("--replay", default=None)
    a = ap.parse_args()
    os.chdir(vlib.ROOT)
    mod = importlib.import_module(a.pid)
    ck = vlib.Check(a.pid, a.tier, a.seed, getattr(mod, "LEVEL", "model_checking"))
    try:
        if a.replay:
            mod.replay(ck, json.load(open(a.replay)))
        else:
            mod.run(ck)
    except vlib.Inconclusive as e:
        vlib.log("[%s] INCONCLUSIVE (exit 2): %s" % (a.pid, e))
        ck.notes.append("inconclusive: " + str(e)[:2000])
        rc = ck.finish()
        sys.exit(rc if rc == 1 else 2)
    except Exception:
        traceback.print_exc()
        vlib.log("[%s] INCONCLUSIVE (exit 2): internal error of the check" % a.pid)
        sys.exit(2)
    sys.exit(ck.finish())


if __name__ == "__main__":
    main()

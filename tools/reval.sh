#!/bin/bash
# usage: reval.sh <par> [tier]  -- re-evaluates every seed under /verif/seeded with its own property's check (fresh eval lines), <par> properties in parallel
par=${1:-2}; tier=${2:-quick}
cd /verif
ls seeded | grep -E '^C[0-9]+-[A-Z]$' | cut -d- -f1 | sort -u > /tmp/reval-pids.txt
run_pid() { pid=$1; tier=$2; for d in /verif/seeded/$pid-*; do x=${d##*-}; /verif/tools/seedeval.sh $pid $x $tier; done; }
export -f run_pid
cat /tmp/reval-pids.txt | xargs -P $par -I{} bash -c "run_pid {} $tier"

#!/bin/bash
# final pass: regenerate MANIFEST, run every quick check with seed 1 on the unchanged tree (par 2), validate evidence, regenerate seed results
cd /verif
python3 tools/mkmanifest.py
VERIF_SEED=1 tools/runall.sh quick ${1:-2} > /tmp/final-quick.log 2>&1
cat /tmp/final-quick.log
/opt/veriftools/pyvenv/bin/python tools/validate.py | grep -v " ok$"
python3 tools/seedresults.py | tail -3

"""Common machinery for the go-f3 model-based verification checks.

Every check is `python3 tools/check.py <ID> --tier quick|thorough`; this module gives it
  * overlay build of Go drivers from /repo's *current working tree* (never a snapshot),
  * a TLC runner (scratch dir, -metadir, timeout, output parsing),
  * evidence writing (schema /root/.vp/EVIDENCE.schema.json),
  * the verdict policy of DESIGN.md section 4 (VIOLATION / KNOWN-FINDING / exit 2).
"""
import json, os, re, shutil, subprocess, sys, time, glob, hashlib

ROOT = os.path.dirname(os.path.dirname(os.path.abspath(__file__)))
REPO = os.environ.get("VERIF_REPO", "/repo")
BUILD = os.environ.get("VERIF_BUILD", os.path.join(ROOT, "build"))
SPEC = os.path.join(ROOT, "spec")
HARNESS = os.path.join(ROOT, "harness")
TLA_CP = "/opt/veriftools/tla/tla2tools.jar:/opt/veriftools/tla/CommunityModules-deps.jar"
NCPU = os.cpu_count() or 4
# every timeout below is a safety net against hangs, not a performance requirement: on a loaded machine a slow run is still a valid run
TSCALE = float(os.environ.get("VERIF_TIMEOUT_SCALE", "3"))


class Inconclusive(Exception):
    """Anything that is not evidence about the code (exit 2, never a VIOLATION)."""


def log(*a):
    print(*a, flush=True)


def goenv():
    e = dict(os.environ)
    e["GOFLAGS"] = "-mod=mod"
    e["GOPROXY"] = "off"
    e.pop("GOTOOLCHAIN", None)
    e.pop("GOSUMDB", None)
    return e


# ----------------------------------------------------------------------------- overlay build

def gen_overlay(outdir):
    """harness/inpkg/<pkgpath>/<f>.go -> /repo/<pkgpath>/zz_verif_<f>.go (accessors, add-only)
       harness/drivers/<name>/<f>.go  -> /repo/zz_verif/<name>/<f>.go   (new packages of the module)
       harness/lib/<f>.go             -> /repo/zz_verif/vlib/<f>.go      (shared helper package)"""
    rep = {}
    inpkg = os.path.join(HARNESS, "inpkg")
    for d, _, files in os.walk(inpkg):
        for f in files:
            if f.endswith(".go"):
                rel = os.path.relpath(d, inpkg)
                tgt = os.path.normpath(os.path.join(REPO, rel, "zz_verif_" + f))
                if os.path.exists(tgt):
                    raise Inconclusive("overlay target exists in repo: " + tgt)
                rep[tgt] = os.path.join(d, f)
    drivers = os.path.join(HARNESS, "drivers")
    for d, _, files in os.walk(drivers):
        for f in files:
            if f.endswith(".go"):
                rel = os.path.relpath(d, drivers)
                rep[os.path.join(REPO, "zz_verif", rel, f)] = os.path.join(d, f)
    lib = os.path.join(HARNESS, "lib")
    if os.path.isdir(lib):
        for f in os.listdir(lib):
            if f.endswith(".go"):
                rep[os.path.join(REPO, "zz_verif", "vlib", f)] = os.path.join(lib, f)
    os.makedirs(outdir, exist_ok=True)
    p = os.path.join(outdir, "overlay.json")
    with open(p, "w") as fh:
        json.dump({"Replace": rep}, fh, indent=1)
    return p


def build_driver(name, outdir, race=False, timeout=1500):
    """Build the test binary of harness/drivers/<name> inside the go-f3 module (tag verif)."""
    ov = gen_overlay(outdir)
    out = os.path.join(outdir, name.replace("/", "_") + (".race" if race else "") + ".test")
    cmd = ["go", "test", "-tags", "verif", "-overlay", ov, "-vet=off", "-c", "-o", out]
    if race:
        cmd.append("-race")
    cmd.append("./zz_verif/" + name + "/")
    t0 = time.time()
    r = subprocess.run(cmd, cwd=REPO, env=goenv(), capture_output=True, text=True, timeout=timeout)
    if r.returncode != 0 or not os.path.exists(out):
        raise Inconclusive("driver build failed (%s):\n%s\n%s" % (name, r.stdout[-3000:], r.stderr[-6000:]))
    log("[build] %s in %.1fs" % (name, time.time() - t0))
    return out


def run_driver(binary, test_run, env=None, timeout=1200, cwd=None, args=()):
    """Run one Test function of a driver binary. Returns (rc, stdout+stderr)."""
    e = goenv()
    e.update(env or {})
    timeout = int(timeout * TSCALE)
    cmd = [binary, "-test.run", "^" + test_run + "$", "-test.count=1", "-test.timeout", "%ds" % (timeout + 30), "-test.v"]
    cmd += list(args)
    try:
        r = subprocess.run(cmd, cwd=cwd or os.path.dirname(binary), env=e, capture_output=True, text=True, timeout=timeout + 60)
    except subprocess.TimeoutExpired:
        raise Inconclusive("driver timed out: %s %s" % (binary, test_run))
    return r.returncode, r.stdout + r.stderr


# ----------------------------------------------------------------------------- TLC

class TLCResult:
    def __init__(self):
        self.rc = None
        self.out = ""
        self.generated = 0
        self.distinct = 0
        self.depth = 0
        self.violated = None      # name of violated invariant / property, or None
        self.error = None         # TLC error that is not a property violation
        self.trace = []           # list of raw state strings of a counterexample
        self.finished = False     # "Model checking completed" / simulation finished
        self.coverage = {}        # action -> (distinct, total)
        self.wall = 0.0
        self.dir = None
        self.printed = []         # lines printed by PrintT (raw)

    def ok(self):
        return self.finished and self.violated is None and self.error is None


def tlc(spec_dir, module, cfg=None, workdir=None, workers=None, timeout=600, simulate=None, depth=None,
        seed=None, extra_files=None, coverage=False, deadlock=False, jvm_opts=None, dfs=False, extra_args=None,
        heap=None, keep=False, dump_dot=None, continue_=False):
    """Run TLC on a scratch copy of spec_dir (plus extra_files: {name: path-or-bytes}).
       simulate: None or "num=N" ; returns TLCResult."""
    assert workdir
    timeout = int(timeout * TSCALE)
    if os.path.exists(workdir):
        shutil.rmtree(workdir)
    shutil.copytree(spec_dir, workdir)
    for name, src in (extra_files or {}).items():
        dst = os.path.join(workdir, name)
        if isinstance(src, bytes):
            with open(dst, "wb") as fh:
                fh.write(src)
        else:
            shutil.copy(src, dst)
    meta = os.path.join(workdir, "_meta")
    cmd = ["java", "-XX:+UseParallelGC", "-Xss64m"]
    cmd.append("-Xmx" + (heap or "8g"))
    if dfs:
        cmd.append("-Dtlc2.tool.queue.IStateQueue=StateDeque")
    cmd += list(jvm_opts or [])
    cmd += ["-cp", TLA_CP, "tlc2.TLC", "-metadir", meta, "-workers", str(workers or "auto"), "-noGenerateSpecTE"]
    if cfg:
        cmd += ["-config", cfg]
    if not deadlock:
        cmd += ["-deadlock"]          # -deadlock DISABLES deadlock checking
    if simulate:
        cmd += ["-simulate", simulate]
    if depth:
        cmd += ["-depth", str(depth)]
    if seed is not None:
        cmd += ["-seed", str(seed)]
    if coverage:
        cmd += ["-coverage", "1"]
    if dump_dot:
        cmd += ["-dump", "dot,actionlabels", dump_dot]
    if continue_:
        cmd += ["-continue"]
    cmd += list(extra_args or [])
    cmd.append(module)
    res = TLCResult()
    res.dir = workdir
    t0 = time.time()
    env = dict(os.environ)
    env.pop("JAVA_TOOL_OPTIONS", None)
    try:
        r = subprocess.run(cmd, cwd=workdir, capture_output=True, text=True, timeout=timeout, env=env)
        res.rc = r.returncode
        res.out = r.stdout + r.stderr
    except subprocess.TimeoutExpired as ex:
        res.rc = -9
        o = ex.stdout or b""
        res.out = (o.decode(errors="replace") if isinstance(o, bytes) else o) + "\n[verif] TLC TIMEOUT after %ds" % timeout
        subprocess.run(["pkill", "-f", "metadir " + meta], capture_output=True)
    res.wall = time.time() - t0
    parse_tlc(res)
    with open(os.path.join(workdir, "tlc.out"), "w") as fh:
        fh.write(res.out)
    if not keep:
        shutil.rmtree(meta, ignore_errors=True)
    return res


_re_states = re.compile(r"(\d[\d,]*) states generated, (\d[\d,]*) distinct states found")
_re_depth = re.compile(r"depth of the complete state graph search is (\d+)")
_re_inv = re.compile(r"Invariant (\S+) is violated")
_re_prop = re.compile(r"(?:Action property|Temporal properties?|property) (\S+) (?:is|was|were) violated")


def parse_tlc(res):
    out = res.out
    for m in _re_states.finditer(out):
        res.generated = int(m.group(1).replace(",", ""))
        res.distinct = int(m.group(2).replace(",", ""))
    m = _re_depth.search(out)
    if m:
        res.depth = int(m.group(1))
    m = _re_inv.search(out)
    if m:
        res.violated = m.group(1)
    else:
        m = re.search(r"Action property (\S+) is violated", out) or re.search(r"Temporal properties were violated", out)
        if m:
            res.violated = m.group(1) if m.groups() else "TemporalProperty"
        elif "Deadlock reached" in out:
            res.violated = "Deadlock"
    if "Model checking completed. No error has been found" in out or "Finished in" in out and "Error:" not in out:
        res.finished = True
    if res.violated is None and ("Error:" in out or res.rc not in (0,)):
        # TLC simulation ends with rc 0 as well; any other rc without a violated property is a tool error
        if "Simulation" in out and res.rc == 0:
            res.finished = True
        elif res.rc != 0 or "Error:" in out:
            em = re.search(r"Error: (.*(?:\n.*){0,12})", out)
            res.error = em.group(1) if em else "TLC rc=%s" % res.rc
    if res.rc == -9:
        res.error = "timeout"
        res.finished = False
    # counterexample states
    res.trace = re.findall(r"State \d+: .*?\n(.*?)(?=\n\nState |\n\n\d+ states generated|\nState \d+:|\Z)", out, re.S) if res.violated else []
    # coverage lines:  <Action line ..>: distinct:total
    for m in re.finditer(r"^<(\w+) line \d+, col \d+ to line \d+, col \d+ of module (\w+)>: (\d+):(\d+)", out, re.M):
        res.coverage[m.group(1)] = (int(m.group(3)), int(m.group(4)))
    res.printed = [l for l in out.splitlines() if l.startswith('"') or l.startswith("<<") or l.startswith("[")]


def sany(spec_dir, module):
    r = subprocess.run(["java", "-cp", TLA_CP, "tla2sany.SANY", module], cwd=spec_dir, capture_output=True, text=True)
    return r.returncode == 0 and "Semantic errors" not in r.stdout, r.stdout


# ----------------------------------------------------------------------------- evidence / verdict

class Check:
    def __init__(self, pid, tier, seed, level="model_checking"):
        self.pid, self.tier, self.seed, self.level = pid, tier, seed, level
        self.t0 = time.time()
        self.dir = os.path.join(BUILD, pid)
        os.makedirs(self.dir, exist_ok=True)
        self.cov = dict(states=0, transitions=0, traces_validated_against_impl=0, samples=[], evaluations=0,
                        distinct_nontrivial=0, rule="", exhaustive=False, configs=[])
        self.assumptions = []
        self.violations = []      # dicts {signature, what, replay}
        self.known_hit = []
        self.notes = []
        kf = os.path.join(ROOT, "known_findings.json")
        self.known = [k for k in json.load(open(kf)).get("findings", []) if k.get("property") == pid] if os.path.exists(kf) else []

    # --- accumulate coverage
    def add_tlc(self, name, res, exhaustive=None, note=""):
        self.cov["states"] += res.distinct
        self.cov["transitions"] += res.generated
        self.cov["configs"].append(dict(config=name, distinct=res.distinct, generated=res.generated, depth=res.depth,
                                        wall_s=round(res.wall, 1), finished=res.finished,
                                        exhaustive=bool(res.finished if exhaustive is None else exhaustive), note=note))

    def sample(self, s, cap=6):
        if len(self.cov["samples"]) < cap:
            self.cov["samples"].append(s)

    def require_tlc_ok(self, name, res, what="design check"):
        """A TLC failure on the *spec* is never a VIOLATION by itself (policy section 4)."""
        if res.error:
            raise Inconclusive("%s %s: TLC error: %s\n%s" % (what, name, res.error, res.out[-3000:]))
        if res.violated:
            raise Inconclusive("%s %s: spec property %s violated on the design model (not reproduced on code)\n%s"
                               % (what, name, res.violated, res.out[-4000:]))
        if not res.finished:
            raise Inconclusive("%s %s: TLC did not finish\n%s" % (what, name, res.out[-2000:]))

    # --- verdicts
    def violation(self, signature, what, replay_obj=None):
        """signature: stable string identifying the failing input / call site / schedule class."""
        for k in self.known:
            if k.get("status", "open") == "open" and re.search(k["signature"], signature):
                if (k["id"], signature) not in [(a, b) for a, b, _ in self.known_hit]:
                    self.known_hit.append((k["id"], signature, what))
                return
        d = os.path.join(self.dir, "violations")
        os.makedirs(d, exist_ok=True)
        p = os.path.join(d, "%s-%s.json" % (self.pid, hashlib.sha1(signature.encode()).hexdigest()[:10]))
        with open(p, "w") as fh:
            json.dump(dict(property=self.pid, signature=signature, what=what, seed=self.seed, tier=self.tier, replay=replay_obj), fh, indent=1, default=str)
        self.violations.append(dict(signature=signature, what=what, replay=p))

    def finish(self):
        wall = time.time() - self.t0
        cov = self.cov
        if not cov["samples"]:
            cov["samples"] = ["(no sample recorded)"]
        ev = dict(property_id=self.pid, tier=self.tier, seed=self.seed, level=self.level, coverage=cov,
                  assumptions=self.assumptions, wall_s=round(wall, 1), violations=len(self.violations),
                  known_findings_hit=[dict(id=a, signature=b, what=c) for a, b, c in self.known_hit], notes=self.notes)
        evdir = os.path.join(ROOT, "evidence") if REPO == "/repo" else os.path.join(BUILD, "evidence")
        os.makedirs(evdir, exist_ok=True)
        with open(os.path.join(evdir, self.pid + ".json"), "w") as fh:
            json.dump(ev, fh, indent=1, default=str)
        seen = set()
        for kid, sig, what in self.known_hit:
            if kid in seen:
                continue
            seen.add(kid)
            log("KNOWN-FINDING: property=%s %s [%s]" % (self.pid, what, kid))
        for v in self.violations:
            log("VIOLATION property=%s replay=%s" % (self.pid, v["replay"]))
            log("  what: " + v["what"])
        log("[%s] tier=%s seed=%d states=%d transitions=%d traces=%d evaluations=%d wall=%.0fs violations=%d"
            % (self.pid, self.tier, self.seed, cov["states"], cov["transitions"], cov["traces_validated_against_impl"],
               cov["evaluations"], wall, len(self.violations)))
        return 1 if self.violations else 0


def read_ndjson(path):
    out = []
    with open(path) as fh:
        for line in fh:
            line = line.strip()
            if line:
                out.append(json.loads(line))
    return out


def write_ndjson(path, rows):
    with open(path, "w") as fh:
        for r in rows:
            fh.write(json.dumps(r, separators=(",", ":")) + "\n")


# ----------------------------------------------------------------------------- trace validation (shared)

_re_bad = re.compile(r'<<\s*"VERIF_BAD",\s*(\d+),\s*\{(.*?)\}\s*>>', re.S)  # TLC wraps long tuples over several lines


def validate_trace(ck, specdir, module, cfg, trace, name, trace_name="trace.ndjson", timeout=1500, extra_files=None,
                   count_traces=None, dfs=False):
    """Run TLC on a *Trace spec over one recorded NDJSON trace of the real code.
    Convention (see spec/wal/WALTrace.tla): the spec consumes one line per step (variable l), accumulates failing
    (line, clause) pairs and prints <<"VERIF_BAD", line, {clauses}>>.  Clauses named <PID>_* are property monitors
    (-> ck.violation), clauses named Conf_* are conformance (-> drift, Inconclusive).  A trace that is not consumed
    to its end is drift as well.  Returns (TLCResult, events)."""
    events = read_ndjson(trace)
    n = len(events)
    files = {trace_name: trace}
    files.update(extra_files or {})
    r = tlc(specdir, module, cfg, workdir=os.path.join(ck.dir, "tlc-" + name), workers=1, timeout=timeout,
            extra_files=files, dfs=dfs)
    bad = []
    for m in _re_bad.finditer(r.out):
        for c in re.findall(r'"([^"]+)"', m.group(2)):
            bad.append((int(m.group(1)), c))
    prop = [(l, c) for l, c in bad if c.startswith(ck.pid + "_")]
    conf = [(l, c) for l, c in bad if not c.startswith(ck.pid + "_")]
    seen = set()
    for l, c in prop:
        if c in seen:
            continue
        seen.add(c)
        ctx = events[max(0, l - 10):l]
        ck.violation(clause_signature(c, events, l), "clause %s of %s fails on a recorded execution of the real code (trace %s, line %d: %s)"
                     % (c, ck.pid, name, l, json.dumps(events[l - 1])[:300]), dict(trace=trace, line=l, clause=c, context=ctx, seed=ck.seed))
    if r.error and not r.violated:
        if prop:
            return r, events
        raise Inconclusive("trace validation %s: TLC error %s\n%s" % (name, r.error, r.out[-3000:]))
    if prop:
        return r, events
    if conf:
        l, c = conf[0]
        raise Inconclusive("spec drift: %s at line %d of trace %s (no %s clause failed): %s" % (c, l, name, ck.pid, json.dumps(events[l - 1])[:400]))
    if r.distinct != n + 1:
        stuck = events[r.distinct - 1] if 0 < r.distinct <= n else None
        raise Inconclusive("spec drift: trace %s not accepted, stuck at line %d of %d: %s\n%s"
                           % (name, r.distinct, n, json.dumps(stuck)[:600], r.out[-1500:]))
    ck.cov["traces_validated_against_impl"] += count_traces(events) if count_traces else 1
    ck.cov["evaluations"] += n
    ck.add_tlc("trace:" + name, r, exhaustive=False, note="%d events recorded from the real code, every state checked" % n)
    return r, events


def clause_signature(clause, events, line):
    return clause

#!/opt/veriftools/pyvenv/bin/python
import json, jsonschema, glob, sys
ok = True
try:
    jsonschema.validate(json.load(open('/verif/MANIFEST.json')), json.load(open('/root/.vp/MANIFEST.schema.json')))
    print("MANIFEST ok")
except Exception as e:
    ok = False; print("MANIFEST invalid", str(e)[:500])
es = json.load(open('/root/.vp/EVIDENCE.schema.json'))
for f in sorted(glob.glob('/verif/evidence/*.json')):
    try:
        jsonschema.validate(json.load(open(f)), es); print(f, "ok")
    except Exception as e:
        ok = False; print(f, "INVALID", str(e)[:500])
sys.exit(0 if ok else 1)

#!/bin/bash
# usage: mutcheck.sh <PID> <file> <sed-expr> [tier]
#   or:  mutcheck.sh <PID> --patch <patch-file> [tier]
#   or:  mutcheck.sh <PID> --revert <commit-in-/repo> [tier]   (re-introduces a defect that a fix: commit repaired)
# Applies a mutation to a PRIVATE copy of /repo (worktree /tmp/mutrepo-<PID>, never /repo itself),
# runs the check against it (VERIF_REPO / VERIF_BUILD), and restores the copy.
set -u
pid=$1
W=/tmp/mutrepo-$pid
exec 9>/tmp/mutrepo-$pid.lock; flock 9
if [ ! -d "$W" ]; then git -C /repo worktree add --detach -f "$W" HEAD >/dev/null 2>&1 || { echo "worktree failed"; exit 9; }; fi
git -C "$W" checkout -q --detach "$(git -C /repo rev-parse HEAD)" && git -C "$W" checkout -q -- . && git -C "$W" clean -fdq
cd "$W" || exit 9
if [ "$2" = "--revert" ]; then
  git -C /repo show "$3" | git apply -R || { echo "REVERT DID NOT APPLY"; exit 9; }
  tier=${4:-quick}
elif [ "$2" = "--patch" ]; then
  git apply "$3" || { echo "PATCH DID NOT APPLY"; exit 9; }
  tier=${4:-quick}
else
  f=$2; expr=$3; tier=${4:-quick}
  sed -i "$expr" "$f"
fi
if [ -z "$(git diff --stat)" ]; then echo "MUTATION DID NOT APPLY"; exit 9; fi
git diff | grep '^[-+]' | grep -v '^+++\|^---' | head -20
if ! GOFLAGS=-mod=mod GOPROXY=off go build ./... 2>/tmp/mutbuild-$pid.log; then echo "MUTANT DOES NOT COMPILE"; head -5 /tmp/mutbuild-$pid.log; git checkout -q -- .; exit 9; fi
cd /verif && VERIF_REPO="$W" VERIF_BUILD=/verif/build/mut-$pid python3 tools/check.py "$pid" --tier "$tier" 2>&1 | grep -E "VIOLATION|KNOWN|INCONCLUSIVE|what:|^\[$pid\]" | cut -c1-600
echo "exit=${PIPESTATUS[0]}"
git -C "$W" checkout -q -- .

#!/bin/bash
# usage: mutcheck.sh <PID> <file> <sed-expr> [tier]   -- apply a one-line mutation to /repo, run the check, revert.
set -u
pid=$1; f=$2; expr=$3; tier=${4:-quick}
cd /repo || exit 9
if [ -n "$(git status --short)" ]; then echo "repo dirty"; exit 9; fi
sed -i "$expr" "$f"
if [ -z "$(git diff --stat)" ]; then echo "MUTATION DID NOT APPLY: $expr"; exit 9; fi
git diff | grep '^[-+]' | grep -v '^+++\|^---'
cd /verif && python3 tools/check.py "$pid" --tier "$tier" 2>&1 | grep -E "VIOLATION|KNOWN|INCONCLUSIVE|what:|^\[$pid\]" | cut -c1-400
echo "exit=${PIPESTATUS[0]}"
git -C /repo checkout -- .

#!/bin/bash
# usage: tools/runall.sh <tier> <parallelism> [ids...]   -> build/runall/<ID>.log, summary on stdout
tier=${1:-quick}; par=${2:-2}; shift 2
ids=${@:-C01 C02 C03 C04 C05 C06 C07 C08 C09 C10 C11 C12 C13 C14 C15 C16 C17 C18 C19 C20}
mkdir -p /verif/build/runall
cd /verif
run1() { id=$1; tier=$2; [ -f checks/$id.py ] || { echo "$id missing"; return; }; s=$(date +%s); python3 tools/check.py $id --tier $tier > build/runall/$id.$tier.log 2>&1; rc=$?; e=$(date +%s); echo "$id rc=$rc wall=$((e-s))s $(grep -c VIOLATION build/runall/$id.$tier.log) viol $(grep -E 'INCONCLUSIVE' build/runall/$id.$tier.log | cut -c1-200 | head -1)"; }
export -f run1
printf "%s\n" $ids | xargs -P $par -I{} bash -c "run1 {} $tier"

#!/usr/bin/env python3
"""Regenerate the attack-schedule library /verif/attacks/*.json.
Each schedule is a TLC counterexample: the per-message model spec/consensus/MCGPBFT.tla is run with ONE operator
overridden by a mutant (a named weakening of the protocol: quorum threshold, justification checks of the validator,
base check ...), TLC searches for a violation of Agreement / Validity and prints the history of actions that led to it.
The schedules are replayed on real gpbft.Participants by the C01/C02 checks: on a correct tree the real participants
refuse the critical steps; on a tree carrying the corresponding defect the real decisions diverge and the TLA+ monitors
fire on real output.   usage: genattacks.py [--seeds 1,2,3] [--only name]"""
import os, sys, json, argparse
HERE = os.path.dirname(os.path.abspath(__file__))
sys.path.insert(0, HERE); sys.path.insert(0, os.path.join(os.path.dirname(HERE), "checks"))
import vlib, conslib

MUTANTS = [
    # name, model, override, what the mutant stands for in the code
    ("strong-half", "fork", "Strong <- StrongHalf", "IsStrongQuorum weakened to a simple majority"),
    ("strong-floor", "bound3", "Strong <- StrongFloor", "two-thirds threshold rounded down (boundary: total not divisible by 3, adversary at floor(total/3))"),
    ("strong-minus", "fork", "Strong <- StrongMinus", "strong-quorum threshold one member short"),
    ("just-nopower", "forkx", "JustOKI <- JustNoPower", "validator does not weigh the signers of a justification"),
    ("just-anyvalue", "forkx", "JustShapeOK <- JustShapeAnyValue", "validator does not compare the justified value with the vote"),
    ("just-anyround", "forkx", "JustShapeOK <- JustShapeAnyRound", "validator accepts justifications from any round"),
    ("decide-noj", "forkx", "JustShapeOK <- JustShapeDecideNoJ", "DECIDE admitted without justification"),
    ("decide-byprepare", "forkx", "JustShapeOK <- JustShapeDecideByPrepare", "DECIDE admitted with a PREPARE-quorum justification"),
    ("conv-noprepare", "forkx", "ConvOK <- ConvOKNoPrepare", "CONVERGE filter admits a non-candidate value without a PREPARE-quorum justification"),
    ("no-basecheck", "foreign", "WrongBase <- WrongBaseNever", "votes for a chain with a foreign base are not dropped"),
]


def main():
    ap = argparse.ArgumentParser()
    ap.add_argument("--seeds", default="1,2,3")
    ap.add_argument("--only", default="")
    ap.add_argument("--walks", type=int, default=6000)
    ap.add_argument("--timeout", type=int, default=400)
    ap.add_argument("--workers", type=int, default=6)
    a = ap.parse_args()
    ck = vlib.Check("attacks", "thorough", 1)
    out = os.path.join(vlib.ROOT, "attacks")
    os.makedirs(out, exist_ok=True)
    for name, model, ov, what in MUTANTS:
        if a.only and a.only != name:
            continue
        for seed in [int(x) for x in a.seeds.split(",")]:
            rank = ["RankId", "RankRev", "RankMix"][seed % 3]
            r, _ = conslib.tlc_simulate(ck, "att-%s-%d" % (name, seed), model, a.walks, 60, seed, maxround=1, rank=rank, overrides=[ov], export=False,
                                        invariants=("AttackAgreement", "AttackValidity"), properties=(), workers=a.workers, timeout=a.timeout)
            att = conslib._re_attack.findall(r.out)
            print(name, seed, "error", r.error, "violated", r.violated, "states", r.generated, "wall", round(r.wall), [(p, len(json.loads(conslib._unescape(h)))) for p, h in att], flush=True)
            for k, (prop, h) in enumerate(att[:1]):
                m = conslib.MODELS[model]
                json.dump(dict(name="%s-%d" % (name, seed), mutant=ov, stands_for=what, model=model, violates=prop, rank=rank, seed=seed,
                               powers=m["powers"], byz=m["byz"], inputs=m["inputs"], lookahead=0, steps=json.loads(conslib._unescape(h))),
                          open(os.path.join(out, "%s-%d.json" % (name, seed)), "w"), indent=0)


main()

#!/bin/bash
# usage: seedverify.sh <seed-dir e.g. /tmp/seedout/C16-A> [full]
# Confirms a seeded change in a private worktree: applies, builds, demo FAILS with it, demo PASSES without it,
# the touched packages' existing tests (or, with "full", the whole suite) still pass with it.  Prints one summary line.
set -u
d=$1; mode=${2:-pkg}
name=$(basename $d)
W=/tmp/seedv/$name
export GOFLAGS=-mod=mod GOPROXY=off
mkdir -p /tmp/seedv
git -C /repo worktree add --detach -f "$W" HEAD >/dev/null 2>&1 || { echo "$name worktree-failed"; exit 9; }
cd "$W"
demo_path=$(python3 -c "import json;print(json.load(open('$d/meta.json')).get('demo_path',''))")
demo_cmd=$(python3 -c "import json;print(json.load(open('$d/meta.json')).get('demo_cmd',''))")
demo_file=$(ls $d | grep -E 'demo.*\.go$' | head -1)
[ -z "$demo_path" ] && { echo "$name no-demo-path"; }
mkdir -p "$(dirname "$demo_path")"; cp "$d/$demo_file" "$demo_path"
# without patch: demo must pass
( eval "$demo_cmd" ) > /tmp/seedv/$name.demo-clean.log 2>&1; clean=$?
git apply "$d/patch.diff" || { echo "$name patch-does-not-apply"; cd /; git -C /repo worktree remove --force "$W"; exit 9; }
go build ./... > /tmp/seedv/$name.build.log 2>&1; build=$?
( eval "$demo_cmd" ) > /tmp/seedv/$name.demo-mut.log 2>&1; mut=$?
pkgs=$(git diff --name-only | grep '\.go$' | xargs -n1 dirname | sort -u | sed 's|^|./|')
rm -f "$demo_path"
if [ "$mode" = full ]; then
  go test -p 6 -vet=off -count=1 -timeout 25m ./... > /tmp/seedv/$name.suite.log 2>&1; suite=$?
else
  go test -p 4 -vet=off -count=1 -timeout 20m $pkgs > /tmp/seedv/$name.suite.log 2>&1; suite=$?
fi
fails=$(grep -E '^(--- FAIL|FAIL)' /tmp/seedv/$name.suite.log | head -5 | tr '\n' ';')
echo "$name build=$build demo_clean=$clean(expect 0) demo_mut=$mut(expect !=0) suite($mode)=$suite fails=[$fails]"
cd /; git -C /repo worktree remove --force "$W"

"""C13 two-stage (partial, then full) validation equals one-shot validation.
Design check of spec/msg/PartialValidation.tla (model of both stages and of completion vs the one-shot verdict function
of Validator.tla) by TLC over messages x announced keys x completing chains; the enumerated rows are run on the real
PartiallyValidateMessage -> inferJustificationVoteValue -> FullyValidateMessage and on ValidateMessage (fresh and shared warm
caches); TLC evaluates the C13 clauses on every recorded row (spec/msg/PartialValidationTable.tla)."""
import os, json, random, threading, time
import vlib, msgcommon as mc
from vlib import Inconclusive

LEVEL = "model_checking"
NSLICES_QUICK = 32
NSLICES_THOROUGH = int(os.environ.get("VERIF_MSG_SLICES", "4"))   # 1 = the whole space in one run
FIELDS = mc.FIELDS + ["ak", "cc", "pj"]


def design(ck, out):
    thorough = ck.tier == "thorough"
    ns = NSLICES_THOROUGH if thorough else NSLICES_QUICK
    sl = ck.seed % ns
    jobs = []
    if thorough:
        jobs.append(lambda: vlib.tlc(mc.SPECDIR, "MCPartialValidation", "MCt.cfg", workdir=os.path.join(ck.dir, "tlc-design"), workers=8, timeout=2400, heap="6g",
                                     extra_files={"MCt.cfg": mc.cfg_with(mc.SPECDIR, "MCPartialValidationThorough.cfg", NSlices=ns, Slice=sl)}))
    else:
        jobs.append(lambda: vlib.tlc(mc.SPECDIR, "MCPartialValidation", "MCq.cfg", workdir=os.path.join(ck.dir, "tlc-design"), workers=4, timeout=500,
                                     heap="4g", extra_files={"MCq.cfg": mc.cfg_with(mc.SPECDIR, "MCPartialValidation.cfg", Slice=sl)}))
    muts = ["MCPartialValidationMutKey.cfg", "MCPartialValidationMutInfer.cfg"] if thorough else ["MCPartialValidationMutKey.cfg"]
    for i, m in enumerate(muts):
        jobs.append(lambda m=m, i=i: vlib.tlc(mc.SPECDIR, "MCPartialValidation", "MCm.cfg", workdir=os.path.join(ck.dir, "tlc-design-mutant%d" % i),
                                              workers=2, timeout=500, heap="3g",
                                              extra_files={"MCm.cfg": mc.cfg_with(mc.SPECDIR, m, Slice=1)}))
    res = mc.run_parallel(jobs, 3)
    ck.require_tlc_ok("two-stage model", res[0])
    for m, r in zip(muts, res[1:]):
        if r.violated != "D_Design":
            raise Inconclusive("non-vacuity: %s was not refuted\n%s" % (m, r.out[-1500:]))
        ck.add_tlc("design:mutant(%s)" % m, r, exhaustive=False, note="named deviation of the two-stage model, must be refuted")
    ck.add_tlc("design:two-stage(%s)" % ("whole space" if ns == 1 else "slice %d/%d" % (sl, ns)), res[0],
               note="same acceptance, no foreign chain, no foreign justification, round trip on the model of both stages; rows emitted")
    ck.cov["exhaustive"] = True
    rows = [p for p in mc.parse_rows(res[0]) if len(p) == len(FIELDS)]
    if not rows:
        raise Inconclusive("TLC emitted no rows")
    out["rows"] = rows


def compose(ck, rows, path, max_rows):
    """twin families: same message shape, varying vote signature / announced key / completing chain / carried justification;
    the genuine member first.  A seeded sample of whole families; one progress per family.  Sampling and ordering only."""
    rng = random.Random(ck.seed * 104729 + 7)
    fam = {}
    for p in rows:
        d = mc.row_dict(p, FIELDS)
        k = tuple(d[f] for f in FIELDS if f not in ("sig", "ak", "cc", "pj"))
        fam.setdefault(k, []).append(d)
    keys = sorted(fam, key=str)
    rng.shuffle(keys)
    out = []
    nf = 0
    for k in keys:
        f = fam[k]
        if len(out) + len(f) > max_rows:
            break
        f.sort(key=lambda d: (d["sig"] != "ok", d["ak"] != "match", d["cc"] != "orig", d["pj"] != "strip", d["sig"], d["ak"], d["cc"], d["pj"]))
        g = mc.pick_progress(rng)
        g.pop("ep")
        for d in f:
            e = dict(d)
            e.update(g)
            e["fam"] = nf
            out.append(e)
        nf += 1
    # one-coordinate neighbourhoods of valid-looking messages x every announced key x completing chain x carried justification
    hood = []
    for a in mc.valid_looking():
        g = dict(di=0, cr=0, cph="PREPARE") if rng.random() < 0.7 else mc.pick_progress(rng)
        g.pop("ep", None)
        f = [dict(d, ak=ak, cc=cc, pj=pj, fam=nf, **g) for ak in ("match", "other", "zero") for cc in ("orig", "other", "bot", "bad")
             for pj in ("strip", "keep", "junk") for d in mc.neighbours(a)]
        hood += f
        nf += 1
    out = hood + out
    for i, e in enumerate(out):
        e["id"] = i
    vlib.write_ndjson(path, out)
    return len(out), nf


def signature(clause, row):
    return "%s:%s:ak=%s:cc=%s:pj=%s:%s" % (clause, row["ph"], row["ak"], row["cc"], row["pj"], row["jph"])


def run(ck):
    thorough = ck.tier == "thorough"
    box, dz = {}, {}

    def build():
        try:
            box["bin"] = vlib.build_driver("msgval", ck.dir)
        except BaseException as e:
            box["err"] = e
    t = threading.Thread(target=build)
    t.start()
    try:
        design(ck, dz)
    finally:
        t.join()
    if "err" in box:
        raise box["err"]
    vlib.log("[%s] design + build done at %.0fs" % (ck.pid, time.time() - ck.t0))
    inp, outp = os.path.join(ck.dir, "c13-in.ndjson"), os.path.join(ck.dir, "c13-out.ndjson")
    n, nf = compose(ck, dz["rows"], inp, 120000 if thorough else 16000)
    rc, out = vlib.run_driver(box["bin"], "TestC13Table", env=dict(VERIF_IN=inp, VERIF_OUT=outp, VERIF_SEED=str(ck.seed)), timeout=1500)
    if rc != 0:
        raise Inconclusive("driver failed:\n" + out[-3000:])
    vlib.log("[%s] driver done at %.0fs (%d rows)" % (ck.pid, time.time() - ck.t0, n))
    recs = vlib.read_ndjson(outp)
    if len(recs) != n:
        raise Inconclusive("driver wrote %d of %d rows" % (len(recs), n))
    both = sum(1 for r in recs if r["ts"] == [True])
    byph = {}
    for r in recs:
        if r["ts"] == [True]:
            byph[r["ph"]] = byph.get(r["ph"], 0) + 1
    stage2rej = sum(1 for r in recs if r["pcf"] == "OK" and r["fcf"] not in ("OK", "-"))
    for ph in ("QUALITY", "CONVERGE", "PREPARE", "COMMIT", "DECIDE"):
        if not byph.get(ph) and thorough:
            raise Inconclusive("vacuous run: no %s message admitted through the two-stage path" % ph)
    if both < 20 or stage2rej < 20 or not any(r["rt"] for r in recs):
        raise Inconclusive("vacuous run: two-stage acceptances %d, stage-2 rejections %d" % (both, stage2rej))
    mc.check_table(ck, "PartialValidationTable", "PartialValidationTable.cfg", outp, "c13", signature, chunk=16000, par=6 if thorough else 4)
    ck.cov["evaluations"] = sum(r["nts"] + r["nos"] for r in recs)
    ck.cov["distinct_nontrivial"] = len(recs)
    ck.cov["rule"] = ("distinct_nontrivial = distinct (original message, announced key, completing chain, carried justification, progress) points run on the real code; "
                      "evaluations = executions of the two-stage path plus executions of the one-shot path (1 fresh + 8 warm each, caches shared between the paths); "
                      "%d families; admitted through two stages: %d (per phase %s); accepted by stage 1 and rejected by stage 2: %d"
                      % (nf, both, json.dumps(byph, sort_keys=True), stage2rej))
    for r in [r for r in recs if r["ts"] == [True]][:2] + [r for r in recs if r["pcf"] == "OK" and r["fcf"] == "Invalid"][:3]:
        ck.sample({k: r[k] for k in ("ph", "r", "v", "sig", "jph", "jr", "jv", "jS", "jagg", "ak", "cc", "pj", "di", "cr", "cph", "pcf", "fcf", "ocf", "ts", "os", "rt")})
    ck.assumptions += ["same codec / fake signature backend assumptions as C05",
                       "both stages run under the same progress; the partial message always carries the zero chain as its vote value",
                       "completion = pgmsg.Vote.Value = chain; inferJustificationVoteValue(pgmsg) (the two statements of CompleteMessage and of the chain discovery loop)"]
    import pmsgmgr
    pmsgmgr.manager_stage(ck)   # the production partial message manager between the real stage 1 and the real stage 2


MANIFEST = dict(
    text=("TLC checks on a model of PartiallyValidateMessage, inferJustificationVoteValue and FullyValidateMessage (PartialValidation.tla), for every message of a reduced "
          "C05 space x announced key {matching, zero, other chain's key} x completing chain {original, other, bottom, malformed} x carried justification {stripped, kept, other chain} "
          "(2.0 M points, quick: a seeded 1/32 slice), that the two-stage path accepts iff one-shot validation (Validator.tla) of the completed message accepts and the chain's key is "
          "the announced key, that an admitted message satisfies every C05 rule, and that strip+complete is the identity on valid messages; two named deviations must be refuted. "
          "A seeded sample of whole twin families is executed on the real code (production strip and inference, fresh participants and long-lived participants whose cache is shared "
          "by both paths, family order / reversed / random permutations, constant eviction and no eviction) and TLC evaluates C13_SameAcceptance, C13_NoForeignChain, "
          "C13_NoForeignJustification, C13_RoundTrip on every recorded row. A further stage models the production completion path -- pmsg.PartialMessageManager: per-instance bounded "
          "buffers with eviction, the chain-key index, discovery-driven completion, pruning, broadcast de-duplication (PartialManager.tla, model-checked, four mutants and the "
          "emission-level key clause refuted) -- and validates recorded histories of the real manager (real libp2p host, production constructor and run loop, real signatures) against "
          "it: C13_MgrNoForeignChain, C13_MgrSameAcceptance, C13_MgrRoundTrip, C13_MgrComplete."),
    note=("Trusted: TLC, the coordinate->message codec, the fake signature backend. Bounded: listed coordinate values; signer-set/instance/supplemental-data axes reduced "
          "(covered by C05); progress constant across the two stages; wire partial messages with arbitrary junk in the stripped fields are limited to 'kept justification value'."),
    technique="TLA+ model of both validation paths model-checked with TLC + table of real two-stage/one-shot outcomes checked by TLC",
    design_ref="DESIGN.md section 6 C13")

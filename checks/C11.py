"""C11 WAL durability: design check of spec/wal/WAL.tla + trace validation of the real
internal/writeaheadlog against spec/wal/WALTrace.tla (monitors C11_*)."""
import os, re, json
import vlib
from vlib import Inconclusive

LEVEL = "model_checking"
SPECDIR = os.path.join(vlib.SPEC, "wal")


def design(ck):
    cfg = "MCWAL.cfg" if ck.tier == "quick" else "MCWALthorough.cfg"
    r = vlib.tlc(SPECDIR, "MCWAL", cfg, workdir=os.path.join(ck.dir, "tlc-design"), timeout=240 if ck.tier == "quick" else 3000)
    ck.require_tlc_ok(cfg, r)
    ck.add_tlc("design:" + cfg, r, note="all interleavings of append/flush/purge/crash/crash-in-append/open")
    ck.cov["exhaustive"] = True


def validate(ck, trace, name):
    return vlib.validate_trace(ck, SPECDIR, "WALTrace", "WALTrace.cfg", trace, name,
                               count_traces=lambda ev: sum(1 for e in ev if e["ev"] in ("Reset", "TearFork")) + 1)[0]


def run(ck):
    design(ck)
    binary = vlib.build_driver("wal", ck.dir)
    seeds = [ck.seed] if ck.tier == "quick" else [ck.seed + i for i in range(6)]
    nh, steps, cuts = (40, 30, 2) if ck.tier == "quick" else (150, 45, 4)
    for s in seeds:
        trace = os.path.join(ck.dir, "wal-%d.ndjson" % s)
        rc, out = vlib.run_driver(binary, "TestWALHistories", env=dict(VERIF_OUT=trace, VERIF_SEED=str(s), VERIF_N=str(nh),
                                  VERIF_STEPS=str(steps), VERIF_ALLCUTS=str(cuts)), timeout=1200)
        if rc != 0:
            raise Inconclusive("driver failed:\n" + out[-3000:])
        validate(ck, trace, "seed%d" % s)
        ev = vlib.read_ndjson(trace)
        ck.sample(dict(trace="seed%d" % s, first_events=ev[:12]))
        kinds = {}
        for e in ev:
            kinds[e["ev"]] = kinds.get(e["ev"], 0) + 1
        ck.cov.setdefault("event_counts", {})["seed%d" % s] = kinds
        for need in ("Append", "Purge", "All", "TearFork", "Crash", "Rotate"):
            if not kinds.get(need):
                raise Inconclusive("vacuous driver run: no %s event" % need)
    ck.cov["distinct_nontrivial"] = ck.cov["traces_validated_against_impl"]
    ck.cov["rule"] = ("histories = random sequences of Append(epoch 0-4, 8B-600KB)/Rotate/Close/Purge/All/crash+reopen on the real WAL; "
                      "tear forks cut the last record at every byte offset (small) or 59 offsets (large) and reopen; "
                      "distinct_nontrivial counts histories and tear forks, each validated event by event by TLC")
    ck.assumptions += ["fsync makes acknowledged bytes durable (the driver cannot observe a lost fsync)",
                       "a crash leaves a byte prefix of the record being written"]

MANIFEST = dict(
    text=("TLC exhaustively checks the C11 clauses (durable, no phantom, per-file order, purge safe/complete) on WAL.tla for all interleavings of "
          "<=4-5 appends x 3 epochs x 2 sizes, rotate/close, purge, crash between calls, crash inside an append (torn/whole), reopen; "
          "the same clauses are then evaluated by TLC in every state of recorded executions of the real WriteAheadLog (random histories incl. >1MiB rotation, "
          "restart, and the final record cut at every byte offset), the model advancing with the same actions (WALTrace.tla)."),
    note=("Trusted: TLC, the NDJSON recorder in harness/drivers/wal (no oracle in Go), fsync durability of the OS. "
          "Bounded: model constants above; real histories are sampled (seeded), tear offsets exhaustive for records <=700 bytes."),
    technique="TLA+ spec model-checked with TLC + trace validation of the real WAL against the spec",
    design_ref="DESIGN.md section 6 C11")

"""Shared orchestration for the message-validation properties C05 and C13 (spec/msg, harness/drivers/msgval):
parsing the rows TLC enumerates, composing the driver input (ordering / sampling only -- no verdicts here),
and checking recorded tables with TLC in parallel chunks."""
import os, re, json, random, threading, time
from concurrent.futures import ThreadPoolExecutor
import vlib
from vlib import Inconclusive

SPECDIR = os.path.join(vlib.SPEC, "msg")
FIELDS = ["ph", "r", "v", "snd", "sig", "tk", "jph", "jr", "jv", "jinst", "jsupp", "jS", "jagg"]
INTS = {"r", "jr"}
PROGRESS_PHASES = ["INITIAL", "QUALITY", "CONVERGE", "PREPARE", "COMMIT", "DECIDE", "TERMINATED"]
LOOKBACK = 4
PAR = int(os.environ.get("VERIF_PAR", "5"))


# mirror of Dims / InSpace of spec/msg/Validator.tla, used only to *propose* rows (TLC re-checks membership: Conf_InSpace)
DIMS = dict(ph=["QUALITY", "CONVERGE", "PREPARE", "COMMIT", "DECIDE", "INITIAL", "TERMINATED", "BOGUS"], r=[0, 1, 2, -1],
            v=["bot", "base", "ext", "bad"], snd=["member", "zero", "stranger"], sig=["ok", "otherpayload", "othersigner"],
            tk=["none", "ok", "wronground", "othersigner", "absent"], jph=["none", "PREPARE", "COMMIT", "QUALITY"], jr=[-1, 0, 1],
            jv=["same", "bot", "other", "bad"], jinst=["same", "other"], jsupp=["same", "other"],
            jS=["strong", "short", "zero", "oob"], jagg=["ok", "otherpayload", "othersigners"])
JNONE = dict(jph="none", jr=0, jv="same", jinst="same", jsupp="same", jS="strong", jagg="ok")
MSG_PHASES = DIMS["ph"][:5]


def base_row(**k):
    d = dict(ph="PREPARE", r=0, v="ext", snd="member", sig="ok", tk="none")
    d.update(JNONE)
    d.update(k)
    return d


def in_space(d):
    if (d["ph"] == "CONVERGE") != (d["tk"] != "none"):
        return False
    if d["snd"] != "member" and d["sig"] != "ok":
        return False
    jn = all(d[k] == v for k, v in JNONE.items())
    if d["jph"] == "none" and not jn:
        return False
    if d["jinst"] == "other" and d["jsupp"] == "other":
        return False
    if d["ph"] not in MSG_PHASES:
        return jn or (d["jph"] in ("PREPARE", "COMMIT") and d["jr"] == 0 and d["jv"] == "same" and d["jinst"] == "same"
                      and d["jsupp"] == "same" and d["jS"] == "strong" and d["jagg"] == "ok")
    return True


def neighbours(a):
    """the message a and every message of the space that differs from it in exactly one coordinate (a changed phase takes the
    ticket coordinate along; a justification added to / removed from a message counts as one change)"""
    out = [dict(a)]
    for f in FIELDS:
        for val in DIMS[f]:
            if val == a[f]:
                continue
            d = dict(a)
            d[f] = val
            if f == "ph":
                d["tk"] = "ok" if val == "CONVERGE" else "none"
            if f == "jph" and val == "none":
                d.update(JNONE)
            if in_space(d) and d not in out:
                out.append(d)
    if a["jph"] == "none":   # attach each kind of well-formed justification
        for jph in ("PREPARE", "COMMIT"):
            for jr in (-1, 0):
                for jv in ("same", "bot"):
                    d = dict(a, jph=jph, jr=jr, jv=jv)
                    if in_space(d) and d not in out:
                        out.append(d)
    return out


def valid_looking():
    """messages that look valid for every step / round (incl. 2^64-1) / justification kind; their one-coordinate neighbourhoods are
    part of every run, whatever slice of the enumerated space the seed selects"""
    out = [base_row(ph="QUALITY", r=0), base_row(ph="QUALITY", r=0, v="base"), base_row(ph="PREPARE", r=0), base_row(ph="PREPARE", r=0, v="bot"),
           base_row(ph="COMMIT", r=0, v="bot"), base_row(ph="COMMIT", r=1, v="bot")]
    for r in (1, 2, -1):
        out += [base_row(ph="PREPARE", r=r, jph="PREPARE", jr=-1), base_row(ph="PREPARE", r=r, jph="COMMIT", jr=-1, jv="bot"),
                base_row(ph="PREPARE", r=r, v="bot", jph="COMMIT", jr=-1), base_row(ph="PREPARE", r=r, v="bot", jph="PREPARE", jr=-1),
                base_row(ph="CONVERGE", r=r, tk="ok", jph="PREPARE", jr=-1), base_row(ph="CONVERGE", r=r, tk="ok", jph="COMMIT", jr=-1, jv="bot")]
    for r in (0, 1, 2, -1):
        out.append(base_row(ph="COMMIT", r=r, jph="PREPARE"))
    for jr in (0, 1, -1):
        out.append(base_row(ph="DECIDE", r=0, jph="COMMIT", jr=jr))
    out.append(base_row(ph="DECIDE", r=0, v="base", jph="COMMIT"))
    return out


def cfg_with(specdir, cfg, **consts):
    """bytes of <cfg> with some CONSTANT values replaced (e.g. Slice = seed mod NSlices)"""
    s = open(os.path.join(specdir, cfg)).read()
    for k, v in consts.items():
        s, n = re.subn(r"(?m)^(\s*%s\s*=\s*).*$" % re.escape(k), lambda m: m.group(1) + str(v), s)
        if n != 1:
            raise Inconclusive("constant %s not found in %s" % (k, cfg))
    return s.encode()


def parse_rows(res):
    """rows printed by MCValidator / MCPartialValidation: one quoted comma separated string per state"""
    rows = []
    for line in res.out.splitlines():
        if line.startswith('"') and line.endswith('"') and line.count(",") >= len(FIELDS) - 1:
            p = line[1:-1].split(",")
            rows.append(p)
    return rows


def row_dict(p, fields=FIELDS):
    return {f: (int(p[i]) if f in INTS else p[i]) for i, f in enumerate(fields)}


def families(rows):
    """group rows into twin families: same step/round/value/ticket and justification shape, differing only in
    sender, signature, signer set and aggregate; inside a family the all-genuine member comes first, so that on the
    long-lived participants every forged variant is presented after its valid-looking twin."""
    fam = {}
    for p in rows:
        d = row_dict(p)
        k = (d["ph"], d["r"], d["v"], d["tk"], d["jph"], d["jr"], d["jv"], d["jinst"], d["jsupp"])
        fam.setdefault(k, []).append(d)
    out = []
    for k in sorted(fam, key=str):
        f = fam[k]
        f.sort(key=lambda d: (d["snd"] != "member", d["sig"] != "ok", d["jS"] != "strong", d["jagg"] != "ok", d["snd"], d["sig"], d["jS"], d["jagg"]))
        out.append(f)
    return out


def pick_progress(rng):
    di = rng.choices([0, 1, 2, 3, -1, -2, 4, 5], [62, 8, 6, 4, 10, 4, 4, 2])[0]
    cr = rng.choices([0, 1, 2, 3], [45, 30, 15, 10])[0]
    cph = rng.choice(PROGRESS_PHASES)
    ep = rng.choice([0, 0, 1, 2])
    return dict(di=di, cr=cr, cph=cph, ep=ep)


def run_parallel(jobs, par=None):
    """jobs: list of zero-arg callables; returns results in order (exceptions re-raised)"""
    with ThreadPoolExecutor(max_workers=par or PAR) as ex:
        futs = [ex.submit(j) for j in jobs]
        return [f.result() for f in futs]


_re_bad = vlib._re_bad   # robust against TLC wrapping long tuples over several lines


def check_table(ck, module, cfg, table, name, signature, chunk=20000, timeout=900, heap="3g", par=None):
    """Split the recorded table into chunks, let TLC (<module>, one line per step) evaluate the clauses on every line.
    <PID>_* clause failing -> ck.violation(signature(clause, row)); Conf_* failing / line not consumed -> drift (exit 2)."""
    lines = [l for l in open(table).read().splitlines() if l.strip()]
    chunks = [lines[i:i + chunk] for i in range(0, len(lines), chunk)]

    def job(i):
        data = ("\n".join(chunks[i]) + "\n").encode()
        return vlib.tlc(SPECDIR, module, cfg, workdir=os.path.join(ck.dir, "tlc-%s-%d" % (name, i)), workers=1, timeout=timeout,
                        extra_files={"trace.ndjson": data}, heap=heap)
    results = run_parallel([(lambda i=i: job(i)) for i in range(len(chunks))], par)
    prop, conf = [], []
    for i, r in enumerate(results):
        for m in _re_bad.finditer(r.out):
            row = json.loads(chunks[i][int(m.group(1)) - 1])
            for c in re.findall(r'"([^"]+)"', m.group(2)):
                if c.startswith(ck.pid + "_"):
                    prop.append((c, row, i))
                elif c.startswith("Conf_"):       # clauses of another property evaluated by the same table spec are that property's business
                    conf.append((c, row, i))
    seen = {}
    for c, row, i in prop:
        sig = signature(c, row)
        seen.setdefault(sig, []).append(row)
    for sig, rws in sorted(seen.items())[:12]:
        ck.violation(sig, "clause %s of %s fails on the real validator for %d recorded row(s) of table %s, first: %s"
                     % (sig.split(":")[0], ck.pid, len(rws), name, json.dumps(rws[0])[:700]),
                     dict(table=table, rows=rws[:5], seed=ck.seed))
    for i, r in enumerate(results):
        if r.error and not r.violated and not prop:
            raise Inconclusive("table check %s chunk %d: TLC error %s\n%s" % (name, i, r.error, r.out[-2500:]))
    if not prop:
        if conf:
            c, row, i = conf[0]
            raise Inconclusive("spec drift: %s fails on %d row(s) of table %s (no %s clause failed), first: %s"
                               % (c, len(conf), name, ck.pid, json.dumps(row)[:600]))
        for i, r in enumerate(results):
            if r.distinct != len(chunks[i]) + 1:
                raise Inconclusive("spec drift: table %s chunk %d not consumed (%d of %d lines)\n%s"
                                   % (name, i, r.distinct - 1, len(chunks[i]), r.out[-1500:]))
    for i, r in enumerate(results):
        ck.add_tlc("table:%s:%d" % (name, i), r, exhaustive=False,
                   note="%d rows recorded from the real code, clauses evaluated on every row" % len(chunks[i]))
    ck.cov["evaluations"] += len(lines)
    ck.cov["traces_validated_against_impl"] += len(chunks)
    return results

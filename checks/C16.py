"""C16 certificate exchange serves exact store slices; pollers store only verified certificates.

design:  TLC checks the clauses on spec/exchange/CertExchange.tla (every store x request corner value) and
         Poller.tla (every responder script) exhaustively; named-deviation cfgs must produce counterexamples.
binding: the same enumerated requests / scripts are executed on the REAL certexchange.Server, Client and
         polling.Poller over mocknet (harness/drivers/certexchange); TLC validates the recorded calls against
         CertExchangeTrace.tla / PollerTrace.tla (clauses C16_* -> VIOLATION, Conf_* -> drift).
stores that advance during a call:
         MCCertExchangeConc.tla checks the request as a sequence of reads with certstore.Put interleaved between any
         two of them; MCPollerLA.tla checks the node (poller + own store) under every interleaving of local store
         advances, CatchUp and Poll.  The driver serves requests while a Put lands inside the k-th datastore read
         (every k) and from a free-running writer (TestServeConc), and advances the poller's own store by 0..3
         certificates with every pattern of power-table change before / during polls of honest and malicious peers,
         including one that signs with the retired committee's keys (TestPollerLA).  Same trace specs judge."""
import os, json, collections, itertools, random
from concurrent.futures import ThreadPoolExecutor
import vlib
from vlib import Inconclusive

LEVEL = "model_checking"
SPECDIR = os.path.join(vlib.SPEC, "exchange")


def emitted(res):
    rows = []
    for line in res.printed:
        if line.startswith('"{'):
            rows.append(json.loads(json.loads(line)))
    return rows


def pats(lo, hi):
    return [list(p) for n in range(lo, hi + 1) for p in itertools.product([False, True], repeat=n)]


def la_histories(seed, thorough):
    """Histories for TestPollerLA (inputs only, TLC judges): the node starts with len(pre) certificates, its own
    store advances by adv1, optionally Poller.CatchUp is called and the store advances again by adv2, then it polls
    a peer (scripted, or a real honest Server `ahead` of it) while `la` more certificates are finalized locally
    during the first request; optionally a second local advance + honest poll follows on the same poller."""
    rng = random.Random(seed)
    ok = lambda po, kinds: [dict(mode="ok", po=po, kinds=list(kinds))]
    peers = [("honest", [], 2), ("honest", [], 0), ("honest", [], -1),
             ("evil", ok(1, "V"), 0), ("evil", ok(3, "R"), 0), ("evil", ok(3, "VR"), 0), ("evil", ok(3, "RV"), 0),
             ("evil", ok(3, "F"), 0), ("evil", ok(2, "VV"), 0), ("evil", ok(0, ""), 0)]
    pres = [[True, False], [False, True]]
    adv2s = pats(1, 1)
    if thorough:
        peers += [("honest", [], 1), ("evil", ok(1, "VF"), 0), ("evil", ok(3, "G"), 0), ("evil", ok(3, "D"), 0), ("evil", ok(3, "S"), 0),
                  ("evil", ok(3, "T"), 0), ("evil", ok(3, "RR"), 0), ("evil", [dict(mode="reset", po=0, kinds=[])], 0),
                  ("evil", ok(3, "V") + ok(3, "R"), 0), ("evil", ok(3, "V") + ok(0, "V"), 0)]
        pres = pats(2, 2) + [[True], [False, True, False]]
        adv2s = pats(1, 2)
    shapes = [(a1, False, []) for a1 in pats(0, 3)] + [(a1, True, a2) for a1 in pats(1, 3) for a2 in adv2s]
    out = []
    for pre in pres:
        for a1, cu, a2 in shapes:
            for peer, script, ahead in peers:
                out.append(dict(pre=pre, adv1=a1, cu=cu, adv2=a2, peer=peer, script=script, ahead=ahead, la=[],
                                follow=rng.choice(pats(1, 3)) if rng.random() < 0.3 else []))
        # the node's own consensus finalizes while the request is in flight
        for a1 in pats(0, 2 if not thorough else 3):
            for la in pats(1, 2):
                for peer, script, ahead in (peers[0], peers[1], peers[3], peers[4], peers[8]):
                    out.append(dict(pre=pre, adv1=a1, cu=False, adv2=[], peer=peer, script=script, ahead=ahead, la=la,
                                    follow=rng.choice(pats(1, 2)) if rng.random() < 0.3 else []))
    rng.shuffle(out)
    return out


def run(ck):
    thorough = ck.tier == "thorough"
    sfx = "thorough" if thorough else ""
    d = ck.dir
    pool = ThreadPoolExecutor(max_workers=6)
    w = 3 if not thorough else 4
    jobs = {}
    jobs["build"] = pool.submit(vlib.build_driver, "certexchange", d)
    # stores that advance during a call: every interleaving of Put with the reads of a request / of local
    # advances with CatchUp and Poll; named deviations must produce counterexamples (below)
    jobs["la"] = pool.submit(vlib.tlc, SPECDIR, "MCPollerLA", "MCPollerLA%s.cfg" % sfx, os.path.join(d, "tlc-design-la"), w, 1500)
    jobs["poller"] = pool.submit(vlib.tlc, SPECDIR, "MCPoller", "MCPoller%s.cfg" % sfx, os.path.join(d, "tlc-design-poller"), w + 2, 1500)
    jobs["conc"] = pool.submit(vlib.tlc, SPECDIR, "MCCertExchangeConc", "MCCertExchangeConc%s.cfg" % sfx, os.path.join(d, "tlc-design-conc"), 2, 900)
    jobs["serve"] = pool.submit(vlib.tlc, SPECDIR, "MCCertExchange", "MCCertExchange%s.cfg" % sfx, os.path.join(d, "tlc-design-serve"), w, 600)
    jobs["serve-emit"] = pool.submit(vlib.tlc, SPECDIR, "MCCertExchange", "MCCertExchangeEmit%s.cfg" % sfx, os.path.join(d, "tlc-emit-serve"), 2, 600)
    jobs["serve-mutant"] = pool.submit(vlib.tlc, SPECDIR, "MCCertExchange", "MCCertExchangeMutant.cfg", os.path.join(d, "tlc-mutant-serve"), 2, 300)
    jobs["poller-mutant"] = pool.submit(vlib.tlc, SPECDIR, "MCPoller", "MCPollerMutant.cfg", os.path.join(d, "tlc-mutant-poller"), 2, 300)
    conc_mut = [("resample", "InvBelowPending"), ("cliphigh", "InvBelowPending")] + ([("noclip", "InvBelowPending")] if thorough else [])
    la_mut = [("lastdelta-stored", "InvStoredOnlyValid"), ("nextplus1", "InvTableOfNext")] + \
             ([("lastdelta", "InvTableOfNext"), ("lastdelta-status", "InvClassifies"), ("applylast", "InvTableOfNext")] if thorough else [])
    for dev, _ in conc_mut:
        jobs["conc-" + dev] = pool.submit(vlib.tlc, SPECDIR, "MCCertExchangeConc", "MCCertExchangeConc-%s.cfg" % dev, os.path.join(d, "tlc-mutant-conc-" + dev), 1, 600)
    for dev, _ in la_mut:
        jobs["la-" + dev] = pool.submit(vlib.tlc, SPECDIR, "MCPollerLA", "MCPollerLA-%s.cfg" % dev, os.path.join(d, "tlc-mutant-la-" + dev), 1, 600)
    res = {k: f.result() for k, f in jobs.items()}
    for k in ("serve", "serve-emit", "poller", "conc", "la"):
        ck.require_tlc_ok(k, res[k])
    ck.add_tlc("design:MCCertExchangeConc%s.cfg" % sfx, res["conc"], note="one request as header / table / bound / per-certificate reads with PutWrite, PutCommit interleaved between any two: response clauses + interleaving-irrelevance lemma")
    ck.add_tlc("design:MCPollerLA%s.cfg" % sfx, res["la"], note="every chain pattern x every interleaving of LocalAdv(1..3), CatchUp, Poll(script, in-flight advance): table of NextInstance, stored only valid, classification")
    for pre, muts in (("conc-", conc_mut), ("la-", la_mut)):
        for dev, inv in muts:
            r = res[pre + dev]
            if r.violated != inv:
                raise Inconclusive("non-vacuity: deviation %s%s did not violate %s (violated=%s error=%s)" % (pre, dev, inv, r.violated, r.error))
    ck.add_tlc("design:MCCertExchange%s.cfg" % sfx, res["serve"], note="every (store, first, limit, includePowerTable): response clauses as invariants")
    ck.add_tlc("design:MCPoller%s.cfg" % sfx, res["poller"], note="every responder script: stored only valid, advance by valid prefix, status")
    for k, inv in (("serve-mutant", "InvAtMostLimit"), ("poller-mutant", "InvStoredOnlyValid")):
        if res[k].violated != inv:
            raise Inconclusive("non-vacuity: deviation cfg %s did not violate %s (violated=%s error=%s)" % (k, inv, res[k].violated, res[k].error))
    ck.cov["exhaustive"] = True
    reqs, scripts = emitted(res["serve-emit"]), emitted(res["poller"])
    if len(reqs) != res["serve-emit"].distinct or len(scripts) != res["poller"].distinct:
        raise Inconclusive("emitted inputs incomplete: %d/%d requests, %d/%d scripts" % (len(reqs), res["serve-emit"].distinct, len(scripts), res["poller"].distinct))
    reqf, scrf = os.path.join(d, "reqs.ndjson"), os.path.join(d, "scripts.ndjson")
    vlib.write_ndjson(reqf, reqs)
    vlib.write_ndjson(scrf, scripts)
    hists = la_histories(ck.seed, thorough)
    histf = os.path.join(d, "hist.ndjson")
    vlib.write_ndjson(histf, hists)
    binary = res["build"]

    seeds = [ck.seed]
    problems = []
    for s in seeds:
        st, pt = os.path.join(d, "serve-%d.ndjson" % s), os.path.join(d, "poller-%d.ndjson" % s)
        sct, lat = os.path.join(d, "serveconc-%d.ndjson" % s), os.path.join(d, "pollerla-%d.ndjson" % s)
        env = dict(VERIF_REQS=reqf, VERIF_SCRIPTS=scrf, VERIF_HIST=histf, VERIF_SEED=str(s), VERIF_TIER=ck.tier, GOLOG_LOG_LEVEL="fatal")
        runs = [("TestServe", st, 1500), ("TestPoller", pt, 3000), ("TestServeConc", sct, 1500), ("TestPollerLA", lat, 3000)]
        futs = [(name, pool.submit(vlib.run_driver, binary, name, dict(env, VERIF_OUT=out), to)) for name, out, to in runs]
        for name, f in futs:
            rc, out = f.result()
            if rc != 0:
                raise Inconclusive("driver %s failed:\n%s" % (name, out[-3000:]))

        def val(mod, trace, name):
            try:
                return vlib.validate_trace(ck, SPECDIR, mod, mod + ".cfg", trace, name, timeout=2400,
                                           count_traces=lambda ev: sum(1 for e in ev if e["ev"] in ("Store", "Reset", "ResetLA")))
            except Inconclusive as e:
                return e
        vs = [pool.submit(val, "CertExchangeTrace", st, "serve-seed%d" % s), pool.submit(val, "PollerTrace", pt, "poller-seed%d" % s),
              pool.submit(val, "CertExchangeTrace", sct, "serveconc-seed%d" % s), pool.submit(val, "PollerTrace", lat, "pollerla-seed%d" % s)]
        for v in [f.result() for f in vs]:
            if isinstance(v, Inconclusive):
                problems.append(v)
        if not ck.violations:
            vacuity(ck, vlib.read_ndjson(st), vlib.read_ndjson(pt), s)
            vacuity_conc(ck, vlib.read_ndjson(sct), vlib.read_ndjson(lat), s)
    if problems and not ck.violations:
        raise problems[0]
    ck.cov["distinct_nontrivial"] = len(reqs) * 2 + len(scripts) + ck.cov.get("hooked_requests", 0) + len(hists)
    ck.cov["rule"] = ("distinct (store, request) pairs x {real Client, raw stream reader} plus distinct responder scripts played to the real Poller, "
                      "plus distinct (store, request, datastore read at which 1..2 Puts land) triples and distinct local-advance histories of the polling node; "
                      "each executed on the real code and judged by TLC against the spec")
    ck.assumptions += ["mocknet streams behave like libp2p streams (ordered bytes, reset, half-close)",
                       "sim/signing.FakeBackend signatures (real verification logic, fake crypto)",
                       "request values >= 2^30 are logged as 2^30; the spec is insensitive above pending+1 / cap+1",
                       "local Puts into the poller's store land between polls or while the first request of a Poll is in flight (not between the certificates of one response)",
                       "hook-driven Puts are whole certstore.Put calls placed at datastore reads; a Put landing between two in-memory reads (Latest()) with no datastore "
                       "read in between is only reached by the free-running writer (timing dependent)"]


def vacuity(ck, serve, poll, s):
    kinds = collections.Counter()
    for e in serve:
        if e["ev"] == "Serve":
            kinds["serve"] += 1
            kinds["serve-" + e["via"]] += 1
            if e["via"].endswith("-race") and e["certs"]:
                kinds["serve-race"] += 1
            if not e["ok"]:
                kinds["serve-error"] += 1
            if e["certs"]:
                kinds["serve-certs"] += 1
            if e["table"]:
                kinds["serve-table"] += 1
            if len(e["certs"]) >= 256:
                kinds["serve-cap"] += 1
        elif e["ev"] == "ClientScript":
            kinds["cs"] += 1
            if len(e["got"]) < len(e["sent"]):
                kinds["cs-cut"] += 1
        else:
            kinds[e["ev"]] += 1
    for e in poll:
        if e["ev"] == "Poll":
            kinds["poll-%s-%s" % (e["type"], e["status"])] += 1
            if len(e["reqs"]) > 1:
                kinds["poll-multireq"] += 1
            if e["stored"]:
                kinds["poll-stored"] += 1
    ck.cov.setdefault("event_counts", {})["seed%d" % s] = dict(kinds)
    need = ["serve-client", "serve-raw", "serve-race", "serve-error", "serve-certs", "serve-table", "serve-cap", "cs-cut", "Store",
            "poll-concrete-Illegal", "poll-concrete-Hit", "poll-concrete-Miss", "poll-concrete-Failed", "poll-honest-Hit",
            "poll-honest-Miss", "poll-multireq", "poll-stored"]
    for n in need:
        if not kinds.get(n):
            raise Inconclusive("vacuous driver run: no %s event" % n)
    ck.sample(dict(trace="serve-seed%d" % s, events=[e for e in serve if e["ev"] == "Serve" and e["certs"]][:2]))
    ck.sample(dict(trace="poller-seed%d" % s, events=[e for e in poll if e["ev"] == "Poll" and e["status"] == "Illegal"][:1]))


def vacuity_conc(ck, sc, la, s):
    kinds = collections.Counter()
    cur = None
    for e in sc:
        if e["ev"] == "Req":
            cur = e
        elif e["ev"] == "Resp":
            free = cur["via"].endswith("-free")
            kinds["resp-free" if free else "resp-hook"] += 1
            if e["fired"]:
                kinds["hook-fired"] += 1
                if cur["pt"]:
                    kinds["hook-fired-pt"] += 1
                if e["ok"] and e["certs"] and cur["first"] + len(e["certs"]) == e["pending"]:
                    kinds["hook-fired-reaching-pending"] += 1      # the range reached the advertised pending instance while the store was ahead of it
            if free and e["ok"] and e["certs"]:
                kinds["free-certs"] += 1
        else:
            kinds[e["ev"]] += 1
    for e in la:
        if e["ev"] == "PollLA":
            ks = "".join(i["kind"] for r in e["resps"] for i in r["items"]) if e["type"] == "concrete" else "honest"
            kinds["la-%s-%s" % (e["type"], e["status"])] += 1
            if "R" in ks:
                kinds["la-retired"] += 1
            if e["la"]:
                kinds["la-inflight"] += 1
            if e["next0"] + 2 <= len(e["store0"]):
                kinds["la-poll-after-advance>=2"] += 1
        else:
            kinds[e["ev"]] += 1
            if e["ev"] == "LocalAdvance" and len(e["deltas"]) >= 2 and any(e["deltas"][:-1]) and not e["deltas"][-1]:
                kinds["la-advance-change-then-none"] += 1
    ck.cov.setdefault("event_counts", {})["conc-seed%d" % s] = dict(kinds)
    ck.cov["hooked_requests"] = kinds["hook-fired"]
    need = ["PutBegin", "PutEnd", "hook-fired", "hook-fired-pt", "hook-fired-reaching-pending", "resp-free", "free-certs",
            "la-honest-Hit", "la-concrete-Illegal", "la-concrete-Hit", "la-retired", "la-inflight", "la-poll-after-advance>=2",
            "la-advance-change-then-none", "CatchUp", "LocalAdvance"]
    for n in need:
        if not kinds.get(n):
            raise Inconclusive("vacuous driver run: no %s event" % n)
    ck.sample(dict(trace="serveconc-seed%d" % s, events=[e for e in sc if e["ev"] in ("Req", "PutBegin", "Resp")][-3:]))
    ck.sample(dict(trace="pollerla-seed%d" % s, events=[e for e in la if e["ev"] == "PollLA" and e["status"] == "Illegal"][:1]))


def replay(ck, obj):
    """re-validate the recorded trace a violation file points at (python3 tools/check.py C16 --replay <file>)"""
    trace = obj["replay"]["trace"]
    mod = "CertExchangeTrace" if os.path.basename(trace).startswith("serve") else "PollerTrace"
    vlib.validate_trace(ck, SPECDIR, mod, mod + ".cfg", trace, "replay")


MANIFEST = dict(
    text=("TLC checks on CertExchange.tla that the prescribed response (pending = latest+1 or 0, power table of `first` iff requested and first <= pending, "
          "certificates first..min(first+limit,pending)-1, <= limit and <= cap, stored encodings in order) satisfies the C16 clauses for every store of <= 6 (10) "
          "certificates x first in {0..pending+1, huge} x limit in {0,1,2,cap,cap+1,huge} x includePowerTable, and on Poller.tla that one Poll against every responder "
          "script (<= 3 (4) items over valid/stale/duplicate/gap/forged/wrong-delta/oversize/truncated, any advertised pending instance, reset, second response) stores only "
          "validated certificates, advances by the valid prefix and classifies the peer. The same requests and scripts are executed on the real Server (read through the real "
          "Client and through a raw stream reader that compares content hashes of the bytes written with the stored bytes and counts the certificates written) and on the real "
          "polling.Poller (scripted malicious stream handler, real honest Server); TLC validates every recorded call against CertExchangeTrace.tla / PollerTrace.tla. "
          "Stores that advance during a call: MCCertExchangeConc.tla splits the request into its reads (pending instance for the header, power table, range bound, one read per "
          "certificate) with certstore.Put (datastore write, then Latest pointer) interleaved between any two, and checks the response clauses plus the lemma that only the header "
          "value matters; MCPollerLA.tla checks the node (poller + own store) under every interleaving of local advances (1..3 certificates, every pattern of power-table change), "
          "CatchUp and Poll (incl. a responder signing with the retired committee's keys, and local advances while a request is in flight): the poller's table is the table of "
          "NextInstance, only valid certificates are stored, classification. The driver serves requests on a datastore wrapper that performs 1..2 Puts inside the k-th read of the "
          "request for every k, and against a free-running writer; and advances the polling node's own store before / between / during polls of honest and malicious peers."),
    note=("Trusted: TLC, the NDJSON recorder and the script-to-bytes concretisation in harness/drivers/certexchange (no oracle in Go), mocknet, FakeBackend. "
          "Bounded: stores <= 6/10 certificates plus one of 260 for the cap; responder scripts <= 2 responses; values >= 2^30 abstracted to one class; "
          "concurrent store advance: stores <= 3 (5) + 2 (3) Puts in the model, 7 (11) small stores in the driver; local advances of <= 3 certificates, chains <= 6 (7) instances in the model; "
          "local Puts land between polls or while the first request is in flight; Puts between two in-memory reads without a datastore read in between are reached only by the free-running writer."),
    technique="TLA+ specs model-checked with TLC; TLC-enumerated inputs executed on the real server/client/poller; recorded calls validated by TLC against the spec",
    design_ref="DESIGN.md section 6 C16")

"""C05 message validation is sound, complete when relevant, history-independent.
Design check of spec/msg/Validator.tla (implementation-shaped verdict vs declarative rules) by TLC over the
enumerated message space; the enumerated rows are materialised as real signed messages and given to the real
gpbft.Participant.ValidateMessage (fresh / warm caches / 16 goroutines); TLC evaluates the C05 clauses on
every recorded row (spec/msg/ValidatorTable.tla)."""
import os, json, random, threading, time
import vlib, msgcommon as mc
from vlib import Inconclusive

LEVEL = "model_checking"
NSLICES_QUICK = 32
NSLICES_THOROUGH = int(os.environ.get("VERIF_MSG_SLICES", "4"))   # 1 = the whole 830 800-message space in one run

ALPHABET = [  # valid-looking and a few forged messages presented under every progress state
    dict(ph="QUALITY", r=0), dict(ph="PREPARE", r=0),
    dict(ph="PREPARE", r=1, jph="COMMIT", jr=-1, jv="bot"), dict(ph="PREPARE", r=2, jph="PREPARE", jr=-1),
    dict(ph="COMMIT", r=0, jph="PREPARE"), dict(ph="COMMIT", r=1, v="bot"), dict(ph="COMMIT", r=2, jph="PREPARE"),
    dict(ph="COMMIT", r=-1, jph="PREPARE"),
    dict(ph="CONVERGE", r=1, tk="ok", jph="PREPARE", jr=-1), dict(ph="CONVERGE", r=2, tk="ok", jph="COMMIT", jr=-1, jv="bot"),
    dict(ph="DECIDE", r=0, jph="COMMIT"), dict(ph="DECIDE", r=0, jph="COMMIT", jr=1),
    dict(ph="PREPARE", r=0, sig="othersigner"), dict(ph="COMMIT", r=1, jph="PREPARE", jS="short"),
    dict(ph="BOGUS", r=1), dict(ph="PREPARE", r=1, snd="zero", jph="COMMIT", jr=-1, jv="bot"),
]


base_row = mc.base_row


def design(ck, out):
    thorough = ck.tier == "thorough"
    ns = NSLICES_THOROUGH if thorough else NSLICES_QUICK
    sl = ck.seed % ns
    jobs = []
    if thorough:
        jobs.append(lambda: vlib.tlc(mc.SPECDIR, "MCValidator", "MCt.cfg", workdir=os.path.join(ck.dir, "tlc-design"), workers=8, timeout=1500, heap="6g",
                                     extra_files={"MCt.cfg": mc.cfg_with(mc.SPECDIR, "MCValidatorThorough.cfg", NSlices=ns, Slice=sl)}))
    else:
        jobs.append(lambda: vlib.tlc(mc.SPECDIR, "MCValidator", "MCq.cfg", workdir=os.path.join(ck.dir, "tlc-design"), workers=4, timeout=400,
                                     heap="4g", extra_files={"MCq.cfg": mc.cfg_with(mc.SPECDIR, "MCValidator.cfg", Slice=sl)}))
    jobs.append(lambda: vlib.tlc(mc.SPECDIR, "MCValidator", "MCValidatorProgress.cfg", workdir=os.path.join(ck.dir, "tlc-design-progress"),
                                 workers=2, timeout=400, heap="3g"))
    jobs.append(lambda: vlib.tlc(mc.SPECDIR, "MCValidator", "MCValidatorSentinel.cfg", workdir=os.path.join(ck.dir, "tlc-design-mutant"),
                                 workers=2, timeout=400, heap="3g"))
    cache_cfgs = ["ValidatorCache.cfg", "ValidatorCacheMutSig.cfg"] + (["ValidatorCacheMutAgg.cfg"] if thorough else [])
    for i, c in enumerate(cache_cfgs):
        jobs.append(lambda c=c, i=i: vlib.tlc(mc.SPECDIR, "ValidatorCache", c, workdir=os.path.join(ck.dir, "tlc-design-cache%d" % i), workers=1,
                                              timeout=300, heap="2g"))
    res = mc.run_parallel(jobs, 4)
    rc, rp, rm = res[:3]
    ck.require_tlc_ok("cache", res[3])
    ck.add_tlc("design:cache", res[3], note="all sequences of validations and evictions over a 12-message alphabet of twins: cached verdict = cache-less verdict")
    for c, r in zip(cache_cfgs[1:], res[4:]):
        if r.violated != "HistoryIndependent":
            raise Inconclusive("non-vacuity: cache model %s was not refuted\n%s" % (c, r.out[-1200:]))
        ck.add_tlc("design:cache-mutant(%s)" % c, r, exhaustive=False, note="identifier without signature / aggregate: must be refuted")
    ck.require_tlc_ok("content", rc)
    ck.require_tlc_ok("progress", rp)
    if rm.violated != "D_Design":
        raise Inconclusive("non-vacuity: the design invariant did not fail for the MaxUint64 round sentinel variant\n" + rm.out[-1500:])
    ck.add_tlc("design:content(%s)" % ("whole space" if ns == 1 else "slice %d/%d" % (sl, ns)), rc,
               note="every message of the slice: Verdict (code order) = OK <=> all C05 rules hold; rows emitted for the driver")
    ck.add_tlc("design:progress", rp, note="message alphabet x every progress state: ByProgress <=> Relevant, accept <=> rules and relevant")
    ck.add_tlc("design:mutant(round sentinel)", rm, exhaustive=False, note="must fail: COMMIT(round 2^64-1) with a PREPARE justification of another round")
    ck.cov["exhaustive"] = True
    out["rows"] = mc.parse_rows(rc)
    if not out["rows"]:
        raise Inconclusive("TLC emitted no rows")


def compose(ck, rows, path):
    """driver input: twin families in family order, one progress per family; + alphabet x progress grid. Sampling only."""
    rng = random.Random(ck.seed * 7919 + 13)
    fams = mc.families(rows)
    rng.shuffle(fams)
    out = []
    for fi, f in enumerate(fams):
        g = mc.pick_progress(rng)
        for d in f:
            e = dict(d)
            e.update(g)
            e["fam"] = fi
            out.append(e)
    nf = len(fams)
    # one-coordinate neighbourhoods of valid-looking messages: once where everything of the current instance is relevant, once anywhere
    for a in mc.valid_looking():
        nb = mc.neighbours(a)
        for g in (dict(di=0, cr=0, cph="PREPARE", ep=0), mc.pick_progress(rng)):
            for d in nb:
                e = dict(d)
                e.update(g)
                e["fam"] = nf
                out.append(e)
            nf += 1
    for ai, a in enumerate(ALPHABET):
        for ep in (0, 1, 2):
            grid = [(di, cr, cph) for di in range(-2, mc.LOOKBACK + 2) for cr in range(4) for cph in mc.PROGRESS_PHASES]
            rng.shuffle(grid)
            if ep > 0:
                grid = grid[:len(grid) // 4]
            for di, cr, cph in grid:
                e = base_row(**a)
                e.update(di=di, cr=cr, cph=cph, ep=ep, fam=nf + ai)
                out.append(e)
    for i, e in enumerate(out):
        e["id"] = i
    vlib.write_ndjson(path, out)
    return len(out), nf


def race_part(ck, inp):
    """-race build of the same driver on the neighbourhood / grid families plus a sample of the slice"""
    rows = vlib.read_ndjson(inp)
    rng = random.Random(ck.seed + 5)
    famsz = {}
    for r in rows:
        famsz[r["fam"]] = famsz.get(r["fam"], 0) + 1
    special = {f for f, n in famsz.items() if n < 60 or n > 60}      # neighbourhoods, grids and justification-less families
    pick = {f for f in famsz if f in special or rng.random() < 0.05}
    keep = [dict(r) for r in rows if r["fam"] in pick][:40000]
    for i, r in enumerate(keep):
        r["id"] = i
    rin, rout = os.path.join(ck.dir, "c05-race-in.ndjson"), os.path.join(ck.dir, "c05-race-out.ndjson")
    vlib.write_ndjson(rin, keep)
    binary = vlib.build_driver("msgval", ck.dir, race=True)
    rc, out = vlib.run_driver(binary, "TestC05Table", env=dict(VERIF_IN=rin, VERIF_OUT=rout, VERIF_SEED=str(ck.seed + 1), VERIF_CONC="16",
                              VERIF_CONC_EVERY="1"), timeout=1500)
    if "DATA RACE" in out:
        ck.violation("C05_HistoryIndependent:race", "the race detector reports a data race while 16 goroutines validate messages on one participant",
                     dict(output=out[-6000:], seed=ck.seed))
        return
    if rc != 0:
        raise Inconclusive("race driver failed:\n" + out[-3000:])
    mc.check_table(ck, "ValidatorTable", "ValidatorTable.cfg", rout, "c05race", signature, chunk=20000, par=4)
    ck.cov["race_rows"] = len(keep)


def signature(clause, row):
    return "%s:%s:r%s:%s%+d" % (clause, row["ph"], "max" if row["r"] == -1 else row["r"], row["jph"], row["jr"])


def partial_entry_point(ck, binary, thorough):
    """History independence on the partial entry point (PartiallyValidateMessage -> FullyValidateMessage share the validation cache with
    ValidateMessage): the points of the two-stage table of C13 are run on fresh and on long-lived participants; TLC evaluates
    C05_HistoryIndependent on every recorded row (spec/msg/PartialValidationTable.tla)."""
    import C13
    dz = {}
    C13.design(ck, dz)
    inp, outp = os.path.join(ck.dir, "c05p-in.ndjson"), os.path.join(ck.dir, "c05p-out.ndjson")
    n, nf = C13.compose(ck, dz["rows"], inp, 120000 if thorough else 16000)
    rc, out = vlib.run_driver(binary, "TestC13Table", env=dict(VERIF_IN=inp, VERIF_OUT=outp, VERIF_SEED=str(ck.seed)), timeout=1500)
    if rc != 0:
        raise Inconclusive("driver failed (partial entry point):\n" + out[-3000:])
    recs = vlib.read_ndjson(outp)
    if len(recs) != n or not any(r["ts"] == [True] for r in recs) or min(r["nts"] for r in recs) < 4:
        raise Inconclusive("vacuous run of the partial entry point: %d of %d rows" % (len(recs), n))
    mc.check_table(ck, "PartialValidationTable", "PartialValidationTable.cfg", outp, "c05partial", signature, chunk=16000, par=6 if thorough else 4)
    ck.cov["partial_entry_point_rows"] = n


def run(ck):
    thorough = ck.tier == "thorough"
    box, dz = {}, {}

    def build():
        try:
            box["bin"] = vlib.build_driver("msgval", ck.dir)
        except BaseException as e:
            box["err"] = e
    t = threading.Thread(target=build)
    t.start()
    try:
        design(ck, dz)
    finally:
        t.join()
    if "err" in box:
        raise box["err"]
    vlib.log("[%s] design + build done at %.0fs" % (ck.pid, time.time() - ck.t0))
    inp, outp = os.path.join(ck.dir, "c05-in.ndjson"), os.path.join(ck.dir, "c05-out.ndjson")
    n, nf = compose(ck, dz["rows"], inp)
    rc, out = vlib.run_driver(box["bin"], "TestC05Table", env=dict(VERIF_IN=inp, VERIF_OUT=outp, VERIF_SEED=str(ck.seed),
                              VERIF_CONC="16", VERIF_CONC_EVERY="1" if not thorough else "2"), timeout=1500)
    if rc != 0:
        raise Inconclusive("driver failed:\n" + out[-3000:])
    vlib.log("[%s] driver done at %.0fs (%d rows)" % (ck.pid, time.time() - ck.t0, n))
    recs = vlib.read_ndjson(outp)
    if len(recs) != n:
        raise Inconclusive("driver wrote %d of %d rows" % (len(recs), n))
    # vacuity guards (counts of what the code answered; no judgement)
    acc = {}
    classes = {}
    for r in recs:
        classes[r["vf"]] = classes.get(r["vf"], 0) + 1
        if r["vf"] == "OK":
            acc[r["ph"]] = acc.get(r["ph"], 0) + 1
    for ph in ("QUALITY", "CONVERGE", "PREPARE", "COMMIT", "DECIDE"):
        if not acc.get(ph):
            raise Inconclusive("vacuous run: no accepted %s message" % ph)
    for c in ("OK", "Invalid", "TooOld", "NotRelevant", "NoCommittee"):
        if not classes.get(c):
            raise Inconclusive("vacuous run: verdict class %s never observed" % c)
    if min(r["nw"] for r in recs) < 8 or sum(r["nc"] for r in recs) < 16 * len(recs) // 4:
        raise Inconclusive("vacuous run: warm / concurrent evaluations missing")
    if not any(r["r"] == -1 for r in recs):
        raise Inconclusive("vacuous run: no round 2^64-1 row")
    mc.check_table(ck, "ValidatorTable", "ValidatorTable.cfg", outp, "c05", signature, chunk=20000 if thorough else 16000,
                   par=6 if thorough else 5)
    if thorough:
        race_part(ck, inp)
    if not ck.violations:
        partial_entry_point(ck, box["bin"], thorough)
    evals = sum(1 + r["nw"] + r["nc"] for r in recs)
    ck.cov["evaluations"] = evals
    ck.cov["distinct_nontrivial"] = len(recs)
    ck.cov["rule"] = ("distinct_nontrivial = distinct abstract (message, committee, progress) points materialised as real signed messages; "
                      "evaluations = calls of the real Participant.ValidateMessage (1 fresh + 8 warm in 4 orders on an evicting and a "
                      "non-evicting cache + 16 concurrent per point); %d twin families, accepted per phase %s, classes %s"
                      % (nf, json.dumps(acc, sort_keys=True), json.dumps(classes, sort_keys=True)))
    ck.cov["verdict_classes"] = classes
    for r in recs[:3] + [r for r in recs if r["vf"] == "OK"][:3]:
        ck.sample({k: r[k] for k in ("ph", "r", "v", "snd", "sig", "tk", "jph", "jr", "jv", "jS", "jagg", "di", "cr", "cph", "cm", "vf", "vw", "vc")})
    ck.assumptions += ["sim/signing.FakeBackend signatures/aggregates stand for BLS (verification = recomputation; unforgeable by construction of the rows)",
                       "the abstract->concrete codec of harness/drivers/msgval/mat_test.go realises the coordinates (ok = genuine signature over the exact payload)",
                       "progress states are published through atomicProgression.NotifyProgress (accessor), the instance changes of the long-lived participants through the real StartInstanceAt"]


MANIFEST = dict(
    text=("TLC enumerates the abstract message space (step x round {0,1,2,2^64-1} x value x sender x signature x ticket x justification "
          "{none} + phase x round offset x value x instance x supplemental data x signer set x aggregate; 830 800 messages, quick: a seeded 1/32 slice of "
          "whole twin families) and checks on every message that the implementation-shaped verdict function (checks in the order of validator.go) accepts "
          "exactly when the declarative rules of C05 hold, and on a message alphabet x all progress states that the relevance window is the stated one; "
          "a variant with the original MaxUint64 round sentinel must be refuted. Every enumerated row (+ alphabet x instance -2..+5 x round 0..3 x 7 phases) is "
          "materialised as a real signed GMessage and validated by the real Participant.ValidateMessage on a fresh participant, on long-lived participants "
          "(cache of 3 entries = constant eviction, and unbounded) in family order (valid twin, then forged variants), reversed and two random permutations across "
          "real instance changes, and by 16 goroutines at once; TLC evaluates C05_Sound, C05_Complete, C05_NotBrandedInvalid, C05_HistoryIndependent on every recorded row."),
    note=("Trusted: TLC, the coordinate->message codec (no oracle in Go), the fake signature backend. Bounded: listed coordinate values; progress x content is "
          "sampled (one progress per family) except for the alphabet; cache histories are the listed orders, not all sequences."),
    technique="TLA+ verdict function model-checked with TLC over the enumerated message space + table of real verdicts checked by TLC",
    design_ref="DESIGN.md section 6 C05")

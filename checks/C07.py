"""C07 protocol discipline of honest participants: the clauses of the statement are evaluated by TLC (GPBFTObs.tla, Layer A)
on every step of recorded executions of real gpbft.Participants; conformance with GPBFT.tla (Layer B) is checked on the same traces."""
import os
import vlib, conslib
from vlib import Inconclusive

LEVEL = "model_checking"


def run(ck):
    quick = ck.tier == "quick"
    # (D) the clauses as invariants / action property of the implementation-shaped model (simulation), nested inputs (clauses 5/6) and forks (7/8)
    hists = conslib.permsg_design(ck, "c07n", "nest3", 100 if quick else 3000, maxround=2)
    hists2 = conslib.permsg_design(ck, "c07f", "nest", 100 if quick else 3000, maxround=2, rank="RankRev")
    plan = [("random", 40), ("uniform", 4), ("gst", 6)] if ck.tier == "quick" else [("random", 250), ("uniform", 30), ("gst", 60)]
    seeds = [ck.seed] if ck.tier == "quick" else [ck.seed, ck.seed + 1000]
    traces, st = conslib.run_layers(ck, plan, ["C07_"], seeds=seeds)
    # (R-conf) schedules chosen by TLC replayed on the real participants: Layer A clauses + step-by-step conformance (Layer B)
    if not ck.violations:
        conslib.replay_conformance(ck, ck.binary, "nest3", hists[: (50 if quick else 1500)], ["C07_"], tag="rconfn")
    if not ck.violations:
        conslib.replay_conformance(ck, ck.binary, "nest", hists2[: (50 if quick else 1500)], ["C07_"], tag="rconff")
    a = ck.cov["antecedents"]
    for need in ("converge_prepares", "commit_bottom", "byz_deliveries", "decisions", "two_instance_runs"):
        if not a.get(need):
            raise Inconclusive("vacuous run: antecedent %s never occurred" % need)
    ck.cov["distinct_nontrivial"] = a["runs"] + ck.cov.get("replayed_tlc_schedules", 0)
    ck.cov["rule"] = ("runs = seeded scenarios (6 power tables incl. a zero-scaled member, Byzantine sets < 1/3 with an adaptive forger using only observed signatures, "
                      "nested/forked inputs, delay/loss/duplication/staggered starts, 1-2 instances, partial synchrony) on real participants; every Start/Receive/Alarm is one event; "
                      "each clause of C07 is evaluated by TLC on every emitted vote / step")
    ck.assumptions += ["sim/signing.FakeBackend stands for BLS (signatures unforgeable)", "the driver's own scheduler and recorder"]


MANIFEST = dict(
    text=("Every clause of C07 (one vote per slot, emitted votes valid and acceptable to peers, monotone progress, no internal error, round-0 PREPARE = longest "
          "quorum-backed input prefix, CONVERGE adoption, COMMIT discipline, evidence-backed votes) is a TLA+ formula over the observation history, evaluated by TLC in every "
          "state of recorded executions of real participants (random, Byzantine-fed, partially synchronous, 1-2 instances); the same traces must be accepted step by step by "
          "the implementation-shaped spec GPBFT.tla, on which the clauses are also checked at design level by TLC simulation."),
    note=("Trusted: TLC, the driver (scheduler + recorder, no oracle), FakeBackend signatures. Sampled: schedules are seeded random; the design-level check is simulation + bounded BFS, not exhaustive."),
    technique="TLA+ clause monitors evaluated by TLC on traces of the real participants + trace validation against GPBFT.tla",
    design_ref="DESIGN.md section 5 and section 6 C07")

"""C14 encodings: signed bytes bind every field (spec/msg/Payload.tla), chain keys agree across direct / batch /
cached computation (spec/msg/Merkle.tla), codecs round-trip deterministically and reject structural corruptions
within allocation ceilings (spec/msg/Codec.tla).  Every comparison is made by TLC: design checks on the specs,
then table validation of rows recorded from the real code (PayloadTrace / MerkleTrace / CodecTrace)."""
import os, re, json, threading, concurrent.futures as cf
import vlib
from vlib import Inconclusive

LEVEL = "model_checking"
SPECDIR = os.path.join(vlib.SPEC, "msg")
LOCK = threading.Lock()


def _tlc(ck, module, cfg, name, timeout, workers=2):
    return vlib.tlc(SPECDIR, module, cfg, workdir=os.path.join(ck.dir, "tlc-" + name), timeout=timeout, workers=workers, heap="3g")


def design(ck, pool):
    """Design-level checks (TLC on the specs themselves) + non-vacuity mutants + generation of shapes and cases."""
    q = ck.tier == "quick"
    to = 170 if q else 1500
    holds = [("MCMerkle", "MCMerkle.cfg" if q else "MCMerklethorough.cfg", "design-merkle",
              "BatchTree(n)[k] = Tree(k), leaves in order, length binding for all k <= n <= %d; emits Tree(k), k <= 128" % (64 if q else 128)),
             ("MCPayload", "MCPayload.cfg" if q else "MCPayloadthorough.cfg", "design-payload",
              "real field widths: every single-field change of payload / tipset / VRF / chain tuples changes the symbolic bytes"),
             ("MCPayload", "MCPayloadReduced.cfg" if q else "MCPayloadReducedthorough.cfg", "design-payload-reduced",
              "reduced widths, bytes in {1,':'}: injective for a fixed network name over ALL pairs of tuples"),
             ("MCCodec", "MCCodec.cfg" if q else "MCCodecthorough.cfg", "gen-codec",
              "generation of boundary values, structural corruptions, over-limit values and zstd frames from the schema")]
    # named deviations that TLC must refute (otherwise the design check would be vacuous)
    mutants = [("MCMerkle", "MCMerkleMut1.cfg", "mut-merkle-depth", "InvBatchEqualsTree"),
               ("MCPayload", "MCPayloadMutNoRound.cfg", "mut-noround", "InvSingleField"),
               ("MCPayload", "MCPayloadCollideV.cfg", "collide-vrf", "InvFull")]
    if not q:
        mutants += [("MCMerkle", "MCMerkleMut2.cfg", "mut-merkle-split", "InvBatchEqualsTree"),
                    ("MCPayload", "MCPayloadMutPhaseSlot.cfg", "mut-phaseslot", "InvSingleField"),
                    ("MCPayload", "MCPayloadMutTsNoPT.cfg", "mut-tsnopt", "InvSingleField"),
                    ("MCPayload", "MCPayloadMutTsNoComm.cfg", "mut-tsnocomm", "InvSingleField"),
                    ("MCPayload", "MCPayloadMutVrfNoInst.cfg", "mut-vrfnoinst", "InvSingleField"),
                    ("MCPayload", "MCPayloadCollideP.cfg", "collide-payload", "InvFull")]
    futs = {}
    for mod, cfg, name, note in holds:
        futs[pool.submit(_tlc, ck, mod, cfg, name, to)] = ("hold", cfg, name, note)
    for mod, cfg, name, inv in mutants:
        futs[pool.submit(_tlc, ck, mod, cfg, name, to)] = ("mut", cfg, name, inv)
    return futs


def collect_design(ck, futs):
    collisions = []
    for f in cf.as_completed(list(futs)):
        kind, cfg, name, extra = futs[f]
        r = f.result()
        if kind == "hold":
            ck.require_tlc_ok(cfg, r)
            ck.add_tlc("design:" + cfg, r, note=extra)
        else:
            if r.error and not r.violated:
                raise Inconclusive("mutant config %s: TLC error %s\n%s" % (cfg, r.error, r.out[-1500:]))
            if r.violated != extra:
                raise Inconclusive("non-vacuity: mutant config %s was NOT refuted by TLC (expected %s violated, got %s)" % (cfg, extra, r.violated))
            for m in re.finditer(r'<<"VERIF_COLLISION".*?>>\n(?=\S)', r.out, re.S):
                collisions.append(re.sub(r"\s+", " ", m.group(0))[:700])
            ck.cov["configs"].append(dict(config="mutant:" + cfg, refuted=True, violated=r.violated, wall_s=round(r.wall, 1),
                                          note="named deviation / documented-assumption exhibit; TLC must find a counterexample"))
    if collisions:
        ck.cov["documented_collisions"] = collisions[:4]
    ck.cov["exhaustive"] = True


def counters(r, name):
    m = re.search(r'<<"VERIF_CNT", "(.*?)">>', r.out)
    if not m:
        raise Inconclusive("trace %s: no VERIF_CNT line (End row not reached)" % name)
    return json.loads(m.group(1).replace('\\"', '"'))


def run_driver(binary, test, env, timeout=900):
    rc, out = vlib.run_driver(binary, test, env=env, timeout=timeout)
    if rc != 0:
        raise Inconclusive("driver %s failed:\n%s" % (test, out[-3000:]))


def codec_rows(ck, binary, cases, seed, pool):
    """run TestCodec on three contiguous chunks of the case file in parallel and concatenate the rows in order"""
    n = sum(1 for _ in open(cases))
    cuts = [0, n // 3, 2 * n // 3, n]
    parts, futs = [], []
    for i in range(3):
        out = os.path.join(ck.dir, "codec-%d-part%d.ndjson" % (seed, i))
        parts.append(out)
        futs.append(pool.submit(run_driver, binary, "TestCodec", dict(VERIF_OUT=out, VERIF_SEED=str(seed), VERIF_CASES=cases, GOMAXPROCS="2",
                                                                      VERIF_FIRST=str(cuts[i] + 1), VERIF_LAST=str(cuts[i + 1]))))
    for f in futs:
        f.result()
    trace = os.path.join(ck.dir, "codec-%d.ndjson" % seed)
    rows = 0
    with open(trace, "w") as fh:
        for p in parts:
            for line in open(p):
                if '"ev":"End"' in line:
                    continue
                fh.write(line)
                rows += 1
        fh.write(json.dumps(dict(ev="End", rows=rows)) + "\n")
    return trace


def run(ck):
    q = ck.tier == "quick"
    pool = cf.ThreadPoolExecutor(max_workers=5 if q else 6)
    fb = pool.submit(vlib.build_driver, "enc", ck.dir)
    futs = design(ck, pool)
    collect_design(ck, futs)
    binary = fb.result()
    shapes = os.path.join(ck.dir, "tlc-design-merkle", "shapes.ndjson")
    cases = os.path.join(ck.dir, "tlc-gen-codec", "cases.ndjson")
    for p in (shapes, cases):
        if not os.path.exists(p):
            raise Inconclusive("TLC did not emit " + p)
    ncases = sum(1 for _ in open(cases))
    seeds = [ck.seed] if q else [ck.seed, ck.seed + 1]
    ns = list(range(1, 41)) + [63, 64, 65, 100, 127, 128] if q else list(range(1, 129))
    tot = dict(one=0, same=0, keys=0, cases=0)
    for si, s in enumerate(seeds):
        signed = os.path.join(ck.dir, "signed-%d.ndjson" % s)
        keys = os.path.join(ck.dir, "keys-%d.ndjson" % s)
        senv = dict(VERIF_OUT=signed, VERIF_SEED=str(s), VERIF_BASES="3" if q else "10", VERIF_ALLLENS="0" if (q or si > 0) else "1")
        f1 = pool.submit(run_driver, binary, "TestSigned", senv)
        f2 = pool.submit(run_driver, binary, "TestKeys", dict(VERIF_OUT=keys, VERIF_SEED=str(s), VERIF_SHAPES=shapes, VERIF_NS=",".join(map(str, ns))))
        codec = codec_rows(ck, binary, cases, s, pool)
        f1.result(), f2.result()
        vt = 900 if q else 3000
        jobs = [pool.submit(vlib.validate_trace, ck, SPECDIR, "PayloadTrace", "PayloadTrace.cfg", signed, "signed-%d" % s, timeout=vt),
                pool.submit(vlib.validate_trace, ck, SPECDIR, "MerkleTrace", "MerkleTrace.cfg", keys, "keys-%d" % s, timeout=vt),
                pool.submit(vlib.validate_trace, ck, SPECDIR, "CodecTrace", "CodecTrace.cfg", codec, "codec-%d" % s,
                            timeout=vt, extra_files={"cases.ndjson": cases})]
        errs, res = [], []
        for j in jobs:
            try:
                res.append(j.result())
            except Inconclusive as e:
                errs.append(e)
                res.append(None)
        if ck.violations:
            continue            # a property clause failed on real output: report it (drift elsewhere is secondary)
        if errs:
            raise errs[0]
        (rs, evs), (rk, evk), (rc, evc) = res
        cs, ckk, cc = counters(rs, "signed"), counters(rk, "keys"), counters(rc, "codec")
        ck.cov.setdefault("counters", {})["seed%d" % s] = dict(signed=cs, keys=ckk, codec=cc)
        # vacuity guards: every antecedent of every clause was exercised
        for k in ("P", "PC", "T", "V", "epoch", "key", "pt", "comm", "len", "order"):
            if cs.get(k, 0) < 1:
                raise Inconclusive("vacuous signed-bytes table: no %s comparison" % k)
        if cs["one"] < 500 or cs["same"] < 10 or cs["maxchain"] != 128:
            raise Inconclusive("vacuous signed-bytes table: %s" % cs)
        if ckk["keys"] < 500 or ckk["maxn"] != 128 or ckk["nonpow2"] < 100:
            raise Inconclusive("vacuous key table: %s" % ckk)
        if cc["rows"] != ncases or cc["types"] != 16 or min(cc["rt"], cc["cor"], cc["zst"], cc["overlimit"], cc["rejected"]) < 1:
            raise Inconclusive("vacuous codec table: %s (cases %d)" % (cc, ncases))
        tot["one"] += cs["one"]; tot["same"] += cs["same"]; tot["keys"] += ckk["keys"]; tot["cases"] += cc["rows"]
        if si == 0:
            ck.sample(dict(table="signed", row={k: v for k, v in evs[0].items() if k != "bytes2"}))
            ck.sample(dict(table="keys", row=evk[min(5, len(evk) - 1)]))
            cor = [e for e in evc if e["ev"] == "cor" and e["case"]["op"] == "hdrlen" and e["case"]["arg"] == "max"][:1]
            ck.sample(dict(table="codec", row=(cor or evc[:1])[0]))
    pool.shutdown(wait=True)
    if ck.violations:
        return
    ck.cov["distinct_nontrivial"] = tot["one"] + tot["keys"] + tot["cases"]
    ck.cov["rule"] = ("signed bytes: %d pairs of real encodings whose inputs differ in exactly one field (+%d identical pairs) compared by TLC, families = full "
                      "product over a 2-3 value alphabet per field and stars around seeded boundary tuples, chains of length 1..128 perturbed per tipset component / length / order; "
                      "keys: %d (n,k) rows each with 7 real key computations + the spec's tree shape evaluated with keccak; "
                      "codec: %d TLC-generated cases (boundary round trips, truncation at every item boundary, length headers past their limit, major-type swaps, "
                      "over-limit resizes, zstd frames) executed on 16 types x 3 decoders; distinct_nontrivial = pairs + key rows + cases"
                      % (tot["one"], tot["same"], tot["keys"], tot["cases"]))
    ck.assumptions += ["the network name is fixed per network: Payload.tla shows (MCPayloadCollide*) that two different network names can yield identical signed bytes "
                       "because name and beacon are variable-length and ':' may occur in them; the clauses only demand sensitivity to single-field changes",
                       "keccak-256 / blake2b are injective on the inputs used (symbolic hash in the specs)",
                       "the canonical dump used to compare a value before/after a round trip (harness/drivers/enc/codec_test.go: dump) prints every exported field; "
                       "nil and empty chain / slices are both bottom",
                       "allocation is measured as the growth of /gc/heap/allocs:bytes around one decode call in a single-goroutine test binary"]
    ck.notes.append("NOT covered (DESIGN.md section 7): the clause 'arbitrary byte strings produced by coverage-guided mutation' - the spec generates "
                    "structured corruptions of valid encodings only")


MANIFEST = dict(
    text=("TLC checks on the specs: for all payload/tipset/VRF/chain tuples over small byte-string alphabets every single-field change changes the symbolic signed bytes "
          "(real field widths), injectivity for a fixed network name over all pairs (reduced widths; cross-network collisions exhibited and documented), "
          "BatchTree(n)[k] = Tree(k) for all k <= n <= 64 (quick) / 128 (thorough) over an injective symbolic hash, named layout/tree deviations refuted. "
          "Binding: rows recorded from the real MarshalForSigning(WithValueKey), TipSet.MarshalForSigning, VRFToSign/VerifyTicket, ECChain.Key/KeysForPrefixes/"
          "AllPrefixes/Prefix, merkle.Tree/BatchTree and from every MarshalCBOR/UnmarshalCBOR type + encoding.CBOR/ZSTD on TLC-generated boundary values and "
          "structural corruptions are judged row by row by TLC (C14_* clauses; byte-exact layout conformance)."),
    note=("PARTIAL: the clause about arbitrary byte strings from coverage-guided mutation is not covered by this technique; corruptions are the structured ones generated "
          "from the schema (truncate at every item boundary, length header past limit, major-type swap, over-limit resize, zstd frames past the 1 MiB cap). "
          "Alphabets are small (2-11 values per field, boundary + seeded random); chain perturbations are sampled positions for chains > 9 tipsets in the quick tier. "
          "Trusted: TLC, keccak/blake2b injectivity, the NDJSON recorders and the canonical value dump in harness/drivers/enc (no verdict is computed in Go). "
          "The allocation ceiling is derived from the documented limits (cbor-gen 8192 / 2 MiB defaults, cborgen maxlen tags, zstd 1 MiB) with slack, so it detects "
          "removed or 10x-raised limits, not small regressions."),
    technique="TLA+ layout/tree/codec-schema specs model-checked with TLC + TLC-judged tables recorded from the real encoders and decoders",
    design_ref="DESIGN.md section 6 C14, section 7")

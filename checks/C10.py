"""C10 certificate store operations are crash-atomic at datastore-write granularity.
Design check of spec/certstore/CertStore.tla with a crash after every strict prefix of the datastore writes of put / create /
wipe / resumed wipe + trace validation of crash forks of the real store (fault-injecting datastore) against CertStoreCrashTrace.tla."""
import os
import vlib
from vlib import Inconclusive
import certstore_lib as L

LEVEL = "model_checking"


def crashes(ck, binary, seed, n, steps, name):
    trace, _ = L.drive(ck, binary, "TestCertStoreCrashes", name,
                       dict(VERIF_SEED=seed, VERIF_N=n, VERIF_STEPS=steps, VERIF_NOACCESSOR_EVERY=4))
    ev = L.validate(ck, "CertStoreCrashTrace", trace, name, timeout=2400)
    kinds, verdicts, cuts, small, real = L.stats(ck, ev, name)
    for k in ("Fork", "CrashPut", "CrashCreate", "CrashWipe", "CrashResume", "RetryPut", "RetryOpen", "RetryDeleteAll", "Proj", "Open"):
        L.need(kinds.get(k), "no %s event in %s" % (k, name))
    for c in ("CrashPut:k=0", "CrashPut:k=1", "CrashPut:k=2", "CrashCreate:k=0", "CrashCreate:k=1", "CrashWipe:k=0", "CrashWipe:k=1", "CrashWipe:k=2"):
        L.need(cuts.get(c), "crash cut %s not exercised in %s" % (c, name))
    L.need(any(k.startswith("CrashWipe:k=") and int(k.split("=")[1]) >= 5 for k in cuts), "no wipe interrupted after >= 4 deletes in " + name)
    for v in ("Open:open:ok", "Open:open:notinit", "Open:ooc:ok", "Open:create:ok", "Open:create:other", "RetryOpen:ooc:ok", "RetryOpen:create:ok"):
        L.need(verdicts.get(v), "reopen variant/verdict %s not exercised in %s" % (v, name))
    ck.cov["crash_points"] = ck.cov.get("crash_points", 0) + sum(cuts.values())
    i = next(j for j, e in enumerate(ev) if e["ev"] == "CrashPut")
    ck.sample(dict(trace=name, around_first_crash=ev[max(0, i - 4):i + 12]))
    return ev


def run(ck):
    quick = ck.tier == "quick"
    L.design(ck, "MCC10.cfg" if quick else "MCC10thorough.cfg",
             {"MCC10_mutNoResume.cfg": "WipeResumed", "MCC10_mutLatestFirst.cfg": "CrashConsistent"},
             timeout=600 if quick else 3000,
             note="as C09 plus: the process stops after every strict prefix of the datastore writes of Put (cert, checkpoint, latest), "
                  "Create/OpenOrCreate (table, first marker), DeleteAll (tombstone, any subset of the deletes) and of the wipe resumed by open; "
                  "in every such state every open variant is evaluated (CrashConsistent, WipeResumed, Repeatable)")
    binary = vlib.build_driver("certstore", ck.dir)
    if quick:
        crashes(ck, binary, ck.seed, 8, 36, "seed%d" % ck.seed)
    else:
        for i in range(5):
            crashes(ck, binary, ck.seed + 1000 * i, 24, 50, "seed%d" % (ck.seed + 1000 * i))
    ck.cov["distinct_nontrivial"] = ck.cov["crash_points"]
    ck.cov["rule"] = ("a case = one crash point: (history prefix, mutating operation, number k of its datastore writes that reached the datastore), every k "
                      "below the operation's write count enumerated for every Put that writes / create / open-or-create / DeleteAll of seeded random "
                      "histories (plus one random cut of the wipe resumed by reopening); each crashed datastore is reopened with OpenStore, "
                      "OpenOrCreateStore (right and wrong arguments) and CreateStore on copies, projected, the operation repeated and the store used "
                      "further; distinct_nontrivial = number of crash points (Crash* events), traces = number of forks, all validated event by event by TLC")
    ck.assumptions += ["a crash loses memory and leaves exactly the datastore writes that returned (writes are atomic and ordered; no torn values)",
                       "the datastore is datastore.MapDatastore behind a fault-injecting wrapper that fails every call after the k-th write",
                       "a root-level '/tombstone' planted outside the store namespace (legacy layout) is not generated"]


def replay(ck, obj):
    """check.py --replay <violation file>: validate the recorded trace of the violation again (the trace is the replayable input;
    re-running the driver with the recorded seed regenerates it)."""
    r = obj.get("replay") or {}
    trace = r.get("trace")
    if not trace or not os.path.exists(trace):
        raise Inconclusive("replay: recorded trace %s is gone; re-run the check with VERIF_SEED=%s" % (trace, obj.get("seed")))
    L.validate(ck, "CertStoreCrashTrace", trace, "replay")


MANIFEST = dict(
    text=("TLC exhaustively checks on CertStore.tla that after the process stops behind any strict prefix of the datastore writes of Put / Create / "
          "OpenOrCreate / DeleteAll / a resumed wipe, every open variant yields a store observably equal to the state before or after the operation "
          "(Latest, Get, GetRange, GetPowerTable over [first, latest], table at latest+1), that the operation can be repeated and that a wipe whose "
          "tombstone was written is completed (<= 3 certificates, 2 tables, frequency 2, first instance 0/1; named deviations 'open ignores the "
          "namespaced tombstone' and 'latest pointer written first' are refuted). The same clauses are evaluated by TLC on recorded crash forks of the "
          "real store: every crash point of every mutating operation of random histories, enumerated with a fault-injecting datastore, each reopened "
          "with the three open variants, retried and used further (CertStoreCrashTrace.tla)."),
    note=("Trusted: TLC, the recorder and the fault-injecting wrapper in harness/drivers/certstore, atomic ordered datastore writes. "
          "Bounded: model constants above; real histories are seeded samples, crash points exhaustive per operation. "
          "Keys beyond the latest pointer left by an interrupted Put are not history and are not compared."),
    technique="TLA+ spec model-checked with TLC + trace validation of crash forks of the real certificate store against the spec",
    design_ref="DESIGN.md section 6 C10")

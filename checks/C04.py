"""C04 certificate chains verify only if quorum-signed and linked; power-table deltas are exact and canonical.

design : spec/certs/PowerDiff.tla (Make / Apply / Canon transcribed from certs.go) checked by TLC for every pair of tables and
         every short delta over a small carrier (MCPowerDiff); spec/certs/Certs.tla (ValidateFinalityCertificates as a fold +
         the C04 clauses in declarative form) checked on every sequence of <= 3 abstract certificates with bounded corruption
         weight over two honest histories (MCCerts).  Named deviations (mutant cfgs) must be refuted.
binding: the sequences enumerated by TLC are printed as JSON and REALISED by harness/drivers/certs as real certificates (fake
         signing backend), together with honest chains over random table evolutions, single random corruptions, chains built
         from the decisions of real gpbft participants, boundary shapes; MakePowerTableDiff / ApplyPowerTableDiffs run on all
         pairs of small tables, all short deltas, random and malformed deltas, under two magnitude maps.  Every call is recorded
         (abstract input + what the code returned) and TLC judges each row (CertsTrace.tla / PowerDiffTrace.tla:
         C04_* -> VIOLATION, Conf_* -> drift)."""
import os, json, collections
from concurrent.futures import ThreadPoolExecutor
import vlib
from vlib import Inconclusive

LEVEL = "model_checking"
SPECDIR = os.path.join(vlib.SPEC, "certs")

# (cfg, invariant that TLC must report violated)
MUTANTS_QUICK = [("MCCertsMutLink.cfg", "InvAcceptIff"), ("MCCertsMutQuorum.cfg", "InvAcceptIff"), ("MCCertsMutReport.cfg", "InvReport")]
MUTANTS_MORE = [("MCCertsMutCommit.cfg", "InvAcceptIff"), ("MCCertsMutMake.cfg", "InvHonestMut")]


def tlc(ck, module, cfg, workers, timeout):
    return vlib.tlc(SPECDIR, module, cfg, workdir=os.path.join(ck.dir, "tlc-" + cfg.replace(".cfg", "")), workers=workers, timeout=timeout,
                    jvm_opts=["-XX:ParallelGCThreads=2"])


def mutants(ck, todo):
    """named deviations of the design specs: TLC must find a counterexample for each (non-vacuity of the design check)"""
    out = []
    r = tlc(ck, "MCPowerDiff", "MCPowerDiffMut.cfg", 1, 600)
    if r.violated != "Unique":
        raise Inconclusive("non-vacuity: MCPowerDiffMut.cfg (unsorted deltas accepted) not refuted (violated=%s error=%s)" % (r.violated, r.error))
    out.append(("MCPowerDiffMut.cfg", r))
    for cfg, inv in todo:
        r = tlc(ck, "MCCerts", cfg, 1, 600)
        if r.violated != inv:
            raise Inconclusive("non-vacuity: mutant config %s did not violate %s (violated=%s error=%s)" % (cfg, inv, r.violated, r.error))
        out.append((cfg, r))
    return out


def emitted(res):
    return [json.loads(json.loads(l)) for l in res.printed if l.startswith('"{')]


def split(ck, path, prefix, per_chunk):
    """chunks of a row table (one TLC instance each, run concurrently)"""
    chunks, cur, n = [], None, 0
    with open(path) as fh:
        for line in fh:
            if '"k":"end"' in line[:40] or not line.strip():
                continue
            if cur is None or n >= per_chunk:
                if cur:
                    cur.close()
                name = "%s-%02d" % (prefix, len(chunks))
                p = os.path.join(ck.dir, name + ".ndjson")
                cur = open(p, "w")
                chunks.append((name, p))
                n = 0
            cur.write(line)
            n += 1
    if cur:
        cur.close()
    return chunks


def validate(ck, module, name, path):
    try:
        return vlib.validate_trace(ck, SPECDIR, module, module + ".cfg", path, name, timeout=2400)
    except Inconclusive as e:
        return e


def run(ck):
    th = ck.tier != "quick"
    d = ck.dir
    pool = ThreadPoolExecutor(max_workers=7)
    f_build = pool.submit(vlib.build_driver, "certs", d)
    f_pd = pool.submit(tlc, ck, "MCPowerDiff", "MCPowerDiffthorough.cfg" if th else "MCPowerDiff.cfg", 3, 2400)
    f_mc = pool.submit(tlc, ck, "MCCerts", "MCCerts.cfg", 2, 2400)
    f_mcth = pool.submit(tlc, ck, "MCCerts", "MCCertsthorough.cfg", 3, 2400) if th else None
    f_mut = pool.submit(mutants, ck, MUTANTS_QUICK + (MUTANTS_MORE if th else []))

    # ---- the calls enumerated by TLC (the design run prints every state = one call)
    cases, seen, r_mcs = [], set(), []
    for cfg, f in (("MCCerts.cfg", f_mc), ("MCCertsthorough.cfg", f_mcth)):
        if f is None:
            continue
        r = f.result()
        ck.require_tlc_ok(cfg, r)
        em = emitted(r)
        if len(em) != r.distinct - 1:
            raise Inconclusive("%s: emitted calls incomplete: %d of %d" % (cfg, len(em), r.distinct - 1))
        for c in em:
            key = json.dumps(c, sort_keys=True)
            if key not in seen:
                seen.add(key)
                cases.append(c)
        r_mcs.append((cfg, r))
    casef = os.path.join(d, "cases.ndjson")
    vlib.write_ndjson(casef, cases)
    binary = f_build.result()

    # ---- run the real code, record, validate
    seeds = [ck.seed] if not th else [ck.seed, ck.seed + 1]
    vfuts, counts = [], collections.Counter()
    first_rows = None
    for i, s in enumerate(seeds):
        valf, delf = os.path.join(d, "val-%d.ndjson" % s), os.path.join(d, "delta-%d.ndjson" % s)
        env = dict(VERIF_SEED=str(s))
        if not th:
            env.update(VERIF_NRANDOM="250", VERIF_NCONS="6", VERIF_PMAX="2", VERIF_NAPPLY2="3", VERIF_NDELTA="800", VERIF_MC_BOTH="4", VERIF_DELTA_BOTH="4")
        else:
            env.update(VERIF_NRANDOM="1200", VERIF_NCONS="40", VERIF_PMAX="3" if i == 0 else "2", VERIF_NAPPLY2="10" if i == 0 else "6",
                       VERIF_NDELTA="5000", VERIF_MC_BOTH="3", VERIF_DELTA_BOTH="3" if i == 0 else "1")
        if i == 0:
            env["VERIF_CASES"] = casef      # the enumerated part does not depend on the seed
        a = pool.submit(vlib.run_driver, binary, "TestValRows", dict(env, VERIF_OUT=valf), 1500)
        b = pool.submit(vlib.run_driver, binary, "TestDeltaRows", dict(env, VERIF_OUT=delf), 1500)
        for f, name in ((a, "TestValRows"), (b, "TestDeltaRows")):
            rc, out = f.result()
            if rc != 0:
                raise Inconclusive("driver %s failed:\n%s" % (name, out[-3000:]))
        for name, p in split(ck, valf, "val-s%d" % s, 2500 if not th else 6000):
            vfuts.append(pool.submit(validate, ck, "CertsTrace", name, p))
        for name, p in split(ck, delf, "delta-s%d" % s, 10000 if not th else 25000):
            vfuts.append(pool.submit(validate, ck, "PowerDiffTrace", name, p))
        rows = vlib.read_ndjson(valf) + vlib.read_ndjson(delf)
        stats(rows, counts)
        if i == 0:
            first_rows = rows

    problems = [v for v in (f.result() for f in vfuts) if isinstance(v, Inconclusive)]

    # ---- design results
    r_pd = f_pd.result()
    muts = f_mut.result()
    pool.shutdown()
    ck.require_tlc_ok("MCPowerDiff", r_pd)
    ck.add_tlc("design:MCPowerDiff%s.cfg" % ("thorough" if th else ""), r_pd,
               note="one state per table a over ids 1..3 x powers x 2 keys; invariants quantify over every table b (round trip) and every delta of length <= 2 "
                    "over the whole entry alphabet plus every sorted delta of length 3 (accepted => unique canonical, result well-formed)")
    for cfg, r in r_mcs:
        ck.add_tlc("design:" + cfg, r,
                   note="one state per call: sequences of <= 3 certificates over 2 histories x start instance x caller's base, corruption weight <= 2 "
                        "(MCCerts.cfg: every signer subset, one corrupted certificate per sequence; thorough: all pairs of corruptions, any positions); "
                        "fold accepts iff every declarative clause holds, report = valid prefix, honest sequences accepted; every state printed and realised")
    for cfg, r in muts:
        ck.cov["configs"].append(dict(config="mutant:" + cfg, refuted=True, violated=r.violated, wall_s=round(r.wall, 1), exhaustive=False,
                                      note="named deviation, TLC must find a counterexample"))
    if problems and not ck.violations:
        raise problems[0]
    if not ck.violations:
        vacuity(ck, counts)
    ck.cov["exhaustive"] = True
    ck.cov["row_counts"] = dict(counts)
    ck.cov["traces_validated_against_impl"] = len(vfuts)
    ck.cov["distinct_nontrivial"] = counts["val"] + counts["make"] + counts["apply"]
    ck.cov["rule"] = ("one row = one call of the real code on a distinct input: val = ValidateFinalityCertificates on a sequence of real certificates "
                      "(mc: every sequence enumerated by TLC, each under both magnitude maps; pipeline/random: seeded honest chains of 1..11 certificates over "
                      "random table evolutions and single corruptions; consensus: chains built from decisions of real gpbft participants with changing "
                      "committees; special: every signer subset of 6 engineered tables, 128/129 tipsets, empty/nil chains, permuted caller table); "
                      "make = MakePowerTableDiff + ApplyPowerTableDiffs on every ordered pair of tables over ids 1..3 x powers x 2 keys (both magnitudes) "
                      "and random 9-member tables; apply = ApplyPowerTableDiffs on every delta of length <= 1 for every table, every delta of length 2 "
                      "for sampled tables, mutated computed deltas, two-diff sequences")
    for kind in ("mc", "consensus", "random"):
        rs = [r for r in first_rows if r.get("k") == "val" and r.get("src") == kind and r["certs"]]
        if rs:
            r = rs[len(rs) // 2]
            ck.sample(dict(kind="val/" + kind, next=r["next"], base=r["base"], ncerts=len(r["certs"]), ok=r["ok"], errc=r["errc"], rnext=r["rnext"],
                           rchain=r["rchain"], first_cert=r["certs"][0]))
    for kind in ("make", "apply"):
        rs = [r for r in first_rows if r.get("k") == kind and (kind == "make" or not r["ok"])]
        if rs:
            ck.sample(dict(kind=kind, row=rs[len(rs) // 3]))
    ck.assumptions += ["sim/signing.FakeBackend stands for BLS (real verification logic of certs.go, fake crypto; aggregate = hash over (index, key, signature))",
                       "abstract power levels <= 32767 in val rows (65535 * p must fit TLC's 32-bit integers); the two magnitude maps are linear, so sign, "
                       "order, addition and 16-bit scaling commute with them",
                       "for certificates built from real gpbft decisions the aggregate is taken to be over the exact payload (property C03)",
                       "an empty power table makes the empty signer set a (vacuous) strong quorum in spec and code alike (0 >= 2/3 * 0)"]


def stats(rows, c):
    for r in rows:
        k = r.get("k")
        if k == "val":
            c["val"] += 1
            c["val-" + r["src"]] += 1
            c["val-mag%d" % r["mag"]] += 1
            n = len(r["certs"])
            if r["ok"]:
                c["val-ok"] += 1
                c["val-ok-" + r["src"]] += 1
                if n >= 3:
                    c["val-ok-len3"] += 1
                if r["src"] in ("pipeline", "consensus"):
                    for ce in r["certs"]:
                        for e in ce["delta"]:
                            c["honest-delta-entry"] += 1
                            if e["dp"] < 0:
                                c["honest-delta-decrease"] += 1
                            if e["k"] != 0:
                                c["honest-delta-key"] += 1
                        if not ce["delta"]:
                            c["honest-delta-empty"] += 1
            else:
                c["val-err-" + r["errc"]] += 1
                if r["rnext"] > r["next"]:
                    c["val-reject-nonempty-prefix"] += 1
                    if r["rchain"]:
                        c["val-reject-prefix-with-chain"] += 1
            if r["base"] < 0:
                c["val-nobase"] += 1
            if n == 0:
                c["val-emptyseq"] += 1
        elif k == "make":
            c["make"] += 1
            c["make-mag%d" % r["mag"]] += 1
            if not r["d"]:
                c["make-empty-delta"] += 1
        elif k == "apply":
            c["apply"] += 1
            c["apply-mag%d" % r["mag"]] += 1
            if r["ok"]:
                c["apply-ok"] += 1
            else:
                c["apply-err-" + r["errc"]] += 1
            if len(r["ds"]) > 1:
                c["apply-multi"] += 1
                if not r["ok"]:
                    c["apply-multi-rejected"] += 1


def vacuity(ck, c):
    need = {"val-mc": 1000, "val-ok-mc": 50, "val-ok-pipeline": 100, "val-ok-consensus": 20, "val-random": 300, "val-special": 100, "val-ok-len3": 50,
            "val-reject-nonempty-prefix": 100, "val-reject-prefix-with-chain": 50, "val-nobase": 100, "val-emptyseq": 4, "val-mag1": 500, "val-mag2": 500,
            "honest-delta-decrease": 20, "honest-delta-key": 20, "honest-delta-empty": 20,
            "make": 10000, "make-mag1": 4000, "make-mag2": 4000, "make-empty-delta": 100, "apply-ok": 1000, "apply-multi": 300, "apply-multi-rejected": 30,
            "apply-mag1": 1000, "apply-mag2": 1000}
    for cls in ("instance", "chain", "empty", "base", "range", "zeropower", "quorum", "signature", "delta", "commit"):
        need["val-err-" + cls] = 20
    for cls in ("unsorted", "zero", "samekey", "rekeyremove", "newnonpositive", "newnokey", "negative"):
        need["apply-err-" + cls] = 50
    for k, n in need.items():
        if c.get(k, 0) < n:
            raise Inconclusive("vacuous driver run: %d rows of class %s (< %d)" % (c.get(k, 0), k, n))
    if c.get("val-ok-consensus", 0) != c.get("val-consensus", 0) and not ck.violations:
        # every consensus-produced chain must have been accepted; a rejected one is reported by C04_ConsensusAccepted (or drift)
        raise Inconclusive("a consensus-produced chain was rejected but no clause fired")
    for k in ("val-err-other", "apply-err-other"):
        if c.get(k, 0):
            raise Inconclusive("driver could not classify %d error messages (%s): certs.go changed its errors" % (c[k], k))


def replay(ck, obj):
    """re-validate the recorded rows a violation file points at (python3 tools/check.py C04 --replay <file>)"""
    trace = obj["replay"]["trace"]
    mod = "CertsTrace" if os.path.basename(trace).startswith("val") else "PowerDiffTrace"
    vlib.validate_trace(ck, SPECDIR, mod, mod + ".cfg", trace, "replay")


MANIFEST = dict(
    text=("PowerDiff.tla transcribes MakePowerTableDiff / ApplyPowerTableDiffs / canonical order; TLC checks for every pair of tables over ids 1..3 x powers 1..2 (3) x 2 keys "
          "that Apply(a, Make(a,b)) = b, that every delta of length <= 2 over the whole entry alphabet (and every sorted one of length 3) that Apply accepts equals Make(a, result), "
          "and that results are well-formed. Certs.tla transcribes ValidateFinalityCertificates as a fold over abstract certificates (instance, chain shape, signer indices, what "
          "the aggregate really signs and with which keys, committed table, delta) and states the C04 clauses declaratively (table in force, consecutive, well-formed non-empty "
          "linked chain, strong quorum of effective-power members, exact payload, delta yields the committed table, valid-prefix report, consensus-produced accepted); TLC checks "
          "fold = clauses on every sequence of <= 3 certificates with corruption weight <= 2 over two honest histories (tables with a signer set exactly at 2/3, one unit below after "
          "rounding, a zero-scaled member, every signer subset incl. out-of-range). The enumerated calls are realised as real certificates (fake backend) and run through the real "
          "functions together with seeded honest chains over random table evolutions, single corruptions, chains built from decisions of real gpbft participants, and all pairs / "
          "short deltas for the delta functions under two magnitude maps (x1, x(2^80+7)); TLC judges every recorded row."),
    note=("Trusted: TLC, the realiser/recorder in harness/drivers/certs (builds certificates from abstract records and logs what it built; no oracle), FakeBackend in place of BLS, "
          "C08 for IsStrongQuorum = 3a >= 2w and C03 for the payload of real decisions. Bounded: sequences <= 3 exhaustively (random honest chains up to 11), tables <= 3 ids "
          "exhaustively (random up to 9), abstract powers <= 32767 in chain rows, bitfield / CBOR encodings of certificates not exercised (C14)."),
    technique="TLA+ specs model-checked with TLC; TLC-enumerated inputs realised on the real functions; recorded rows validated by TLC against the spec operators",
    design_ref="DESIGN.md section 6 C04")

"""C09 certificate store = gap-free immutable history with derivable power tables.
Design check of spec/certstore/CertStore.tla (TLC, exhaustive) + trace validation of the real certstore.Store
against spec/certstore/CertStoreTrace.tla (monitors C09_*)."""
import os, re, threading
import vlib
from vlib import Inconclusive
import certstore_lib as L

LEVEL = "model_checking"


def histories(ck, binary, seed, n, steps, name, noacc=5):
    trace, _ = L.drive(ck, binary, "TestCertStoreHistories", name,
                       dict(VERIF_SEED=seed, VERIF_N=n, VERIF_STEPS=steps, VERIF_NOACCESSOR_EVERY=noacc))
    ev = L.validate(ck, "CertStoreTrace", trace, name)
    kinds, verdicts, _, small, real = L.stats(ck, ev, name)
    for k in ("Open", "SetFreq", "Put", "Get", "GetRange", "GetPT", "Latest", "Proj", "Subscribe", "Recv", "Unsub", "DeleteAll", "Crash"):
        L.need(kinds.get(k), "no %s event in %s" % (k, name))
    L.need(verdicts.get("Put:ok", 0) > 50 and verdicts.get("Put:other", 0) > 20, "too few admitted / rejected certificates in " + name)
    L.need(small > 10, "no checkpoint crossing with the lowered frequency in " + name)
    L.need(real > 0, "the production checkpoint boundary (1440) was not crossed in " + name)
    for v in ("Open:open:ok", "Open:open:notinit", "Open:ooc:ok", "Open:ooc:other", "Open:create:ok", "Open:create:other"):
        L.need(verdicts.get(v), "open variant/verdict %s not exercised in %s" % (v, name))
    ck.sample(dict(trace=name, first_events=ev[:14]))
    return ev


CONC_MUTANTS = {  # named deviations of CertStoreConc.tla: one public call split over two critical sections
    "MCC09conc_mutAtomicPT.cfg": "GetPowerTable reads the next instance, then (second lock) the cached table",
    "MCC09conc_mutAtomicPut.cfg": "Put publishes the latest certificate, then (second lock) the cached table",
    "MCC09conc_mutNotifyAfterStore.cfg": "Put notifies the subscribers before the certificate is stored / published",
    "MCC09conc_mutAtomicSubscribe.cfg": "Subscribe reads the latest certificate, then (second lock) registers the channel",
}
CONC_KINDS = ("Latest", "GetPT", "Get", "GetRange", "SubInit", "SubPoll", "SubRecv", "SubFinal")


def parallel(ck, *jobs):
    """Run independent stages concurrently (each is TLC- or go-bound).  Every stage gets its own vlib.Check (same directory, own
    coverage / violation lists) which is merged into `ck` afterwards; the first Inconclusive is re-raised after the merge."""
    subs, errs = [vlib.Check(ck.pid, ck.tier, ck.seed, ck.level) for _ in jobs], []

    def wrap(f, sub):
        try:
            f(sub)
        except BaseException as e:   # noqa: re-raised below
            errs.append(e)

    ths = [threading.Thread(target=wrap, args=(j, sub)) for j, sub in zip(jobs, subs)]
    for t in ths:
        t.start()
    for t in ths:
        t.join()
    for sub in subs:
        for k, v in sub.cov.items():
            if isinstance(v, bool):
                ck.cov[k] = ck.cov.get(k, False) or v
            elif isinstance(v, (int, float)):
                ck.cov[k] = ck.cov.get(k, 0) + v
            elif isinstance(v, list):
                ck.cov.setdefault(k, []).extend(v)
            elif isinstance(v, dict):
                ck.cov.setdefault(k, {}).update(v)
            elif v:
                ck.cov[k] = v
        ck.violations += sub.violations
        ck.known_hit += sub.known_hit
        ck.notes += sub.notes
    for e in errs:
        if not isinstance(e, Inconclusive):
            raise e
    if errs:
        raise errs[0]


def design_conc(ck, quick):
    """Linearizability obligation of CertStoreLin.tla on the design: satisfiable by reads that are one atomic step
    (and the driver's bracket [lo, hi] is sound), refuted by each named two-step deviation."""
    cfg = "MCC09conc.cfg" if quick else "MCC09concthorough.cfg"
    res = {}

    def main(_):
        res["main"] = vlib.tlc(L.SPECDIR, "MCCertStoreConc", cfg, workdir=os.path.join(ck.dir, "tlc-conc-design"),
                               timeout=900 if quick else 3000, workers=4)

    def mutants(_):
        for m in CONC_MUTANTS:
            res[m] = vlib.tlc(L.SPECDIR, "MCCertStoreConc", m, workdir=os.path.join(ck.dir, "tlc-" + m[:-4]), timeout=600, workers=1)

    parallel(ck, main, mutants)
    r = res["main"]
    ck.require_tlc_ok(cfg, r)
    ck.add_tlc("design:" + cfg, r, note="1 writer (invocation / effect / response steps, tables change on every certificate, checkpoint crossed), "
               "2 readers x 2 operations (Latest, Get, GetRange, GetPowerTable around the head, Subscribe, non-blocking receive), all "
               "interleavings: BracketSound, Linearizable (CertStoreLin!LinOK), WritersNeverBlock, QuiescentSubsSeeLatest")
    for m, what in CONC_MUTANTS.items():
        x = res[m]
        if x.error or x.violated != "Linearizable":
            raise Inconclusive("non-vacuity: %s (%s) should violate Linearizable, TLC says violated=%s error=%s\n%s"
                               % (m, what, x.violated, x.error, x.out[-1500:]))
        ck.cov["configs"].append(dict(config="mutant:" + m, refuted_invariant="Linearizable", counterexample_states=len(x.trace),
                                      wall_s=round(x.wall, 1), note="named deviation: " + what))


def linearizable(ck, binary, seed, name, puts, rounds, race=False):
    """Writers against reader goroutines and subscribers on the real store behind the gate datastore; every recorded read is
    judged by TLC against CertStoreLin.tla (answer = the model's answer for some state index in its bracket)."""
    trace, out = L.drive(ck, binary, "TestCertStoreLinearizable", name,
                         dict(VERIF_SEED=seed, VERIF_PUTS=puts, VERIF_ROUNDS=rounds, VERIF_READERS=8))
    if "DATA RACE" in out:
        i = out.index("DATA RACE")
        ck.violation("C09_RaceFree", "the race detector reports a data race between writers and concurrent readers/subscribers of certstore.Store",
                     dict(test="TestCertStoreLinearizable", seed=seed, report=out[max(0, i - 200):i + 3000]))
        return
    ev = L.validate(ck, "CertStoreConcTrace", trace, name, timeout=2400)
    kinds, verdicts, _, small, _ = L.stats(ck, [e for e in ev if e["ev"] != "CPut"] +
                                           [dict(e, ev="Put") for e in ev if e["ev"] == "CPut"], name)
    reads = [e for e in ev if e["ev"] == "CRead"]
    cputs = [e for e in ev if e["ev"] == "CPut"]
    by = {}
    for e in reads:
        d = by.setdefault(e["kind"], dict(total=0, overlapping_a_put=0, quiescent=0))
        d["total"] += 1
        d["overlapping_a_put" if e["hi"] > e["lo"] else "quiescent"] += 1
    modes = {}
    for e in cputs:
        modes[e["mode"]] = modes.get(e["mode"], 0) + 1
    pauses = [tuple(int(x) for x in m.group(1).split("/")) for m in re.finditer(r"mode=gated .*pauses=([\d/]+)", out)]
    quiet = sum(int(m.group(1)) for m in re.finditer(r" quiet=(\d+) ", out))
    ck.cov.setdefault("concurrent", {})[name] = dict(
        reads=by, puts_by_mode=modes, goroutines=len({(e["g"]) for e in reads}), gate_pauses_cert_power_latest_after_readerget=pauses,
        quiet_windows=quiet, next_table_reads_racing_a_put=sum(1 for e in reads if e["kind"] == "GetPT" and e["hi"] > e["lo"] and e["err"] == ""))
    for k in CONC_KINDS:
        L.need(by.get(k, {}).get("total"), "no %s read in %s" % (k, name))
    L.need(all(modes.get(m, 0) >= 20 for m in ("free", "handoff", "gated")), "not every writer mode ran in %s: %s" % (name, modes))
    L.need(all(e["err"] == "" and not e["blocked"] and e["lazy"] > 0 for e in cputs), "a Put of the prepared chain was not admitted in " + name)
    L.need(all(len(e["delta"]) > 0 for e in cputs), "a certificate of %s does not change the power table" % name)
    L.need(small >= 20, "too few checkpoint crossings (lowered frequency) in " + name)
    L.need(by["GetPT"]["overlapping_a_put"] >= 200 and by["Latest"]["overlapping_a_put"] >= 100 and by["GetRange"]["overlapping_a_put"] >= 100
           and by["Get"]["overlapping_a_put"] >= 100, "too few reads overlapping a Put in %s: %s" % (name, by))
    L.need(by["SubPoll"]["quiescent"] >= 20, "too few receives with no Put in flight in " + name)
    L.need(pauses and all(min(p) > 0 for p in pauses), "a pause point of the gate was never reached in %s: %s" % (name, pauses))
    L.need(quiet > 0, "no quiet window in " + name)
    ck.sample(dict(trace=name, first_reads=reads[:6]))
    return ev


def run(ck):
    quick = ck.tier == "quick"
    box = {}

    def design(ck):
        L.design(ck, "MCC09.cfg" if quick else "MCC09thorough.cfg", {"MCC09_mutNoDrain.cfg": "PutNeverBlocks"},
                 timeout=600 if quick else 3000,
                 note="all interleavings of create/open-or-create/open, put (valid, stale, duplicate, gap, before-first, wrong delta, wrong "
                      "committed table, delta to empty, bottom/invalid chain), subscribe/receive/unsubscribe, wipe, crash between calls, reopen")

    def build(ck):
        box["binary"] = vlib.build_driver("certstore", ck.dir)

    parallel(ck, design, lambda c: design_conc(c, quick), build)
    binary = box["binary"]
    if quick:
        parallel(ck, lambda c: histories(c, binary, ck.seed, 50, 70, "seed%d" % ck.seed),
                 lambda c: linearizable(c, binary, ck.seed, "lin%d" % ck.seed, 64, 1),
                 lambda c: long_run(c, binary, 1500, 1))   # production checkpoint frequency across 1440; ranges of > 1000 certificates
    else:
        for i in range(6):
            histories(ck, binary, ck.seed + 1000 * i, 150, 110, "seed%d" % (ck.seed + 1000 * i))
        for i in range(3):
            linearizable(ck, binary, ck.seed + 1000 * i, "lin%d" % (ck.seed + 1000 * i), 100, 2)
        long_run(ck, binary)
        concurrent(ck)
    ck.cov["distinct_nontrivial"] = ck.cov["traces_validated_against_impl"]
    ck.cov["rule"] = ("a case = one recorded history of the real certstore.Store (random create/open-or-create/open incl. wrong arguments, "
                      "Put of valid successors with real MakePowerTableDiff deltas over changing tables and of 14 kinds of inadmissible certificates, "
                      "Get/GetRange/GetPowerTable around the window, Latest, subscribe/receive/unsubscribe, crash+reopen, DeleteAll), checkpoint "
                      "frequency lowered to 1..5 through the accessor or left at 1440 with first instances just below 1440/2880; or one concurrent "
                      "episode (1-3 writers putting a chain whose table changes on every certificate, 8 readers + 2 subscribers + 1 subscriber that "
                      "never reads, gate datastore in free / handoff / gated mode, GOMAXPROCS 1..n) whose every recorded read is judged against "
                      "CertStoreLin.tla; every event is checked by TLC; histories are distinct by construction (seeded random, never repeated)")
    ck.assumptions += ["the datastore is datastore.MapDatastore (sync-wrapped); no I/O errors other than absence",
                       "instances < 2^31 (TLC integers); power-table CID is collision free (modelled as the table itself)",
                       "the power-table delta algebra is transcribed from certs.ApplyPowerTableDiffs (decided separately by C04)",
                       "concurrent episodes: sequentially consistent sync/atomic counters (Go memory model) bracket the linearization point; "
                       "interleavings are provoked (gate datastore, pipelined writers, GOMAXPROCS), not enumerated"]


def long_run(ck, binary, puts=3000, crossings=2):
    trace, _ = L.drive(ck, binary, "TestCertStoreLong", "long", dict(VERIF_SEED=ck.seed, VERIF_PUTS=puts))
    ev = L.validate(ck, "CertStoreTrace", trace, "long", timeout=2400)
    kinds, verdicts, _, small, real = L.stats(ck, ev, "long")
    L.need(real >= crossings, "long run did not cross the production checkpoints")


def concurrent(ck):
    binary = vlib.build_driver("certstore", ck.dir, race=True)
    linearizable(ck, binary, ck.seed + 77, "linrace", 64, 1, race=True)
    trace, out = L.drive(ck, binary, "TestCertStoreConcurrent", "conc", dict(VERIF_SEED=ck.seed, VERIF_PUTS=400, VERIF_READERS=8))
    if "DATA RACE" in out:
        i = out.index("DATA RACE")
        ck.violation("C09_RaceFree", "the race detector reports a data race between one writer and concurrent readers/subscribers of certstore.Store",
                     dict(test="TestCertStoreConcurrent", seed=ck.seed, report=out[max(0, i - 200):i + 3000]))
        return
    ev = L.validate(ck, "CertStoreTrace", trace, "conc", timeout=2400)
    kinds = {}
    for e in ev:
        kinds[e["ev"]] = kinds.get(e["ev"], 0) + 1
    ck.cov.setdefault("event_counts", {})["conc"] = kinds
    L.need(kinds.get("CObs", 0) > 500, "too few concurrent observations")


def replay(ck, obj):
    """check.py --replay <violation file>: validate the recorded trace of the violation again (the trace is the replayable input;
    re-running the driver with the recorded seed regenerates it)."""
    r = obj.get("replay") or {}
    trace = r.get("trace")
    if not trace or not os.path.exists(trace):
        raise Inconclusive("replay: recorded trace %s is gone; re-run the check with VERIF_SEED=%s" % (trace, obj.get("seed")))
    L.validate(ck, "CertStoreConcTrace", trace, "replay")   # a superset of CertStoreTrace (adds the CPut / CRead events)


MANIFEST = dict(
    text=("TLC exhaustively checks the C09 clauses on CertStore.tla (contiguity and exactness of every read against the abstract history, "
          "power table of every instance <= latest+1 = fold of the deltas from the initial table both from memory and from the datastore alone, "
          "stored instances immutable, latest pointer monotone, subscriber channel holds the latest unseen certificate, Put never blocks) for all "
          "interleavings of the public API within small bounds (<= 4 certificates, 2-3 tables, checkpoint frequency 2, first instance 0/1, "
          "2 subscribers); the same clauses are evaluated by TLC on every event of recorded histories of the real certstore.Store "
          "(CertStoreTrace.tla), the model advancing with the same functions. Concurrent readers and writers: CertStoreLin.tla states the "
          "linearizability obligation of every read (Latest, Get, GetRange, GetPowerTable(i <= latest+1), subscribe / receive): the answer is the "
          "store's answer in SOME state between invocation and response; CertStoreConc.tla (1 writer, 2 readers, invocation/effect/response "
          "steps) shows by TLC that atomic reads satisfy it and that the driver's bracket [lo, hi] is sound, and refutes four named two-step "
          "deviations; TestCertStoreLinearizable records reads of 8 reader goroutines + subscribers racing 1-3 writers (table changes on every "
          "certificate, gate datastore pausing Puts at every datastore write, pipelined writers, GOMAXPROCS varied) and TLC judges each read "
          "against the model (CertStoreConcTrace.tla: C09_ConcPowerTable, C09_ConcLatest, C09_ConcGet, C09_ConcRange, C09_ConcSubscribe, "
          "C09_ConcRecv, C09_SubscribersEventuallyLatest, C09_WritersNeverBlock). Thorough adds a 3000-certificate run across the real "
          "1440/2880 checkpoints and the concurrent tests under the race detector."),
    note=("Trusted: TLC, the NDJSON recorder and abstract<->real table codec in harness/drivers/certstore (no verdict in Go), MapDatastore. "
          "Bounded: model constants above; real histories are seeded samples; instances < 2^31. The delta algebra is transcribed, not re-derived. "
          "Liveness ('eventually observe') is checked as the safety core: whoever has not seen the latest certificate has it waiting in its channel "
          "(under concurrency: whenever no Put is in flight, and after the last Put). Concurrent interleavings of the real code are provoked and "
          "sampled, not enumerated; reads are judged one by one (plus the per-goroutine witness of an earlier Latest/receive), not as a global "
          "linearization of all operations: Get/GetRange may legitimately see a certificate before Latest does (datastore write precedes the swap)."),
    technique="TLA+ spec model-checked with TLC + trace validation of the real certificate store against the spec",
    design_ref="DESIGN.md section 6 C09")

"""C09 certificate store = gap-free immutable history with derivable power tables.
Design check of spec/certstore/CertStore.tla (TLC, exhaustive) + trace validation of the real certstore.Store
against spec/certstore/CertStoreTrace.tla (monitors C09_*)."""
import os
import vlib
from vlib import Inconclusive
import certstore_lib as L

LEVEL = "model_checking"


def histories(ck, binary, seed, n, steps, name, noacc=5):
    trace, _ = L.drive(ck, binary, "TestCertStoreHistories", name,
                       dict(VERIF_SEED=seed, VERIF_N=n, VERIF_STEPS=steps, VERIF_NOACCESSOR_EVERY=noacc))
    ev = L.validate(ck, "CertStoreTrace", trace, name)
    kinds, verdicts, _, small, real = L.stats(ck, ev, name)
    for k in ("Open", "SetFreq", "Put", "Get", "GetRange", "GetPT", "Latest", "Proj", "Subscribe", "Recv", "Unsub", "DeleteAll", "Crash"):
        L.need(kinds.get(k), "no %s event in %s" % (k, name))
    L.need(verdicts.get("Put:ok", 0) > 50 and verdicts.get("Put:other", 0) > 20, "too few admitted / rejected certificates in " + name)
    L.need(small > 10, "no checkpoint crossing with the lowered frequency in " + name)
    L.need(real > 0, "the production checkpoint boundary (1440) was not crossed in " + name)
    for v in ("Open:open:ok", "Open:open:notinit", "Open:ooc:ok", "Open:ooc:other", "Open:create:ok", "Open:create:other"):
        L.need(verdicts.get(v), "open variant/verdict %s not exercised in %s" % (v, name))
    ck.sample(dict(trace=name, first_events=ev[:14]))
    return ev


def run(ck):
    quick = ck.tier == "quick"
    L.design(ck, "MCC09.cfg" if quick else "MCC09thorough.cfg", {"MCC09_mutNoDrain.cfg": "PutNeverBlocks"},
             timeout=600 if quick else 3000,
             note="all interleavings of create/open-or-create/open, put (valid, stale, duplicate, gap, before-first, wrong delta, wrong "
                  "committed table, delta to empty, bottom/invalid chain), subscribe/receive/unsubscribe, wipe, crash between calls, reopen")
    binary = vlib.build_driver("certstore", ck.dir)
    if quick:
        histories(ck, binary, ck.seed, 50, 70, "seed%d" % ck.seed)
    else:
        for i in range(6):
            histories(ck, binary, ck.seed + 1000 * i, 150, 110, "seed%d" % (ck.seed + 1000 * i))
        long_run(ck, binary)
        concurrent(ck)
    ck.cov["distinct_nontrivial"] = ck.cov["traces_validated_against_impl"]
    ck.cov["rule"] = ("a case = one recorded history of the real certstore.Store (random create/open-or-create/open incl. wrong arguments, "
                      "Put of valid successors with real MakePowerTableDiff deltas over changing tables and of 14 kinds of inadmissible certificates, "
                      "Get/GetRange/GetPowerTable around the window, Latest, subscribe/receive/unsubscribe, crash+reopen, DeleteAll), checkpoint "
                      "frequency lowered to 1..5 through the accessor or left at 1440 with first instances just below 1440/2880; every event is "
                      "checked by TLC against CertStoreTrace.tla; histories are distinct by construction (seeded random, never repeated)")
    ck.assumptions += ["the datastore is datastore.MapDatastore (sync-wrapped); no I/O errors other than absence",
                       "instances < 2^31 (TLC integers); power-table CID is collision free (modelled as the table itself)",
                       "the power-table delta algebra is transcribed from certs.ApplyPowerTableDiffs (decided separately by C04)"]


def long_run(ck, binary):
    trace, _ = L.drive(ck, binary, "TestCertStoreLong", "long", dict(VERIF_SEED=ck.seed, VERIF_PUTS=3000))
    ev = L.validate(ck, "CertStoreTrace", trace, "long", timeout=2400)
    kinds, verdicts, _, small, real = L.stats(ck, ev, "long")
    L.need(real >= 2, "long run did not cross 1440 and 2880")


def concurrent(ck):
    binary = vlib.build_driver("certstore", ck.dir, race=True)
    trace, out = L.drive(ck, binary, "TestCertStoreConcurrent", "conc", dict(VERIF_SEED=ck.seed, VERIF_PUTS=400, VERIF_READERS=8))
    if "DATA RACE" in out:
        i = out.index("DATA RACE")
        ck.violation("C09_RaceFree", "the race detector reports a data race between one writer and concurrent readers/subscribers of certstore.Store",
                     dict(test="TestCertStoreConcurrent", seed=ck.seed, report=out[max(0, i - 200):i + 3000]))
        return
    ev = L.validate(ck, "CertStoreTrace", trace, "conc", timeout=2400)
    kinds = {}
    for e in ev:
        kinds[e["ev"]] = kinds.get(e["ev"], 0) + 1
    ck.cov.setdefault("event_counts", {})["conc"] = kinds
    L.need(kinds.get("CObs", 0) > 500, "too few concurrent observations")


def replay(ck, obj):
    """check.py --replay <violation file>: validate the recorded trace of the violation again (the trace is the replayable input;
    re-running the driver with the recorded seed regenerates it)."""
    r = obj.get("replay") or {}
    trace = r.get("trace")
    if not trace or not os.path.exists(trace):
        raise Inconclusive("replay: recorded trace %s is gone; re-run the check with VERIF_SEED=%s" % (trace, obj.get("seed")))
    L.validate(ck, "CertStoreTrace", trace, "replay")


MANIFEST = dict(
    text=("TLC exhaustively checks the C09 clauses on CertStore.tla (contiguity and exactness of every read against the abstract history, "
          "power table of every instance <= latest+1 = fold of the deltas from the initial table both from memory and from the datastore alone, "
          "stored instances immutable, latest pointer monotone, subscriber channel holds the latest unseen certificate, Put never blocks) for all "
          "interleavings of the public API within small bounds (<= 4 certificates, 2-3 tables, checkpoint frequency 2, first instance 0/1, "
          "2 subscribers); the same clauses are evaluated by TLC on every event of recorded histories of the real certstore.Store "
          "(CertStoreTrace.tla), the model advancing with the same functions; thorough adds a 3000-certificate run across the real 1440/2880 "
          "checkpoints and one writer against 8 concurrent readers/subscribers under the race detector."),
    note=("Trusted: TLC, the NDJSON recorder and abstract<->real table codec in harness/drivers/certstore (no verdict in Go), MapDatastore. "
          "Bounded: model constants above; real histories are seeded samples; instances < 2^31. The delta algebra is transcribed, not re-derived. "
          "Liveness ('eventually observe') is checked as the safety core: whoever has not seen the latest certificate has it waiting in its channel."),
    technique="TLA+ spec model-checked with TLC + trace validation of the real certificate store against the spec",
    design_ref="DESIGN.md section 6 C09")

"""C15 proposals extend the finalized head along EC; committees derive from finality.
Design check of spec/host/ConsensusInputs.tla (TLC enumerates EC trees x heads x bases x manifest values x clock),
then the production gpbftInputs.GetProposal/GetCommittee and a real gpbft.Participant are run on TLC-generated
cases and every returned value is judged by TLC (spec/host/ConsensusInputsTrace.tla, clauses C15_*)."""
import os, re, json
from concurrent.futures import ThreadPoolExecutor
import vlib
from vlib import Inconclusive

LEVEL = "model_checking"
SPECDIR = os.path.join(vlib.SPEC, "host")
MOD = "MCConsensusInputs"


def cfg_with(name, **subst):
    s = open(os.path.join(SPECDIR, name)).read()
    for k, v in subst.items():
        s, n = re.subn(r"(?m)^(\s*%s\s*=\s*).*$" % re.escape(k), lambda m: m.group(1) + str(v), s)
        if n != 1:
            raise Inconclusive("cfg %s has no constant %s" % (name, k))
    return s.encode()


def run_cfg(ck, tag, base, timeout, seed=None, workers=6, **subst):
    return vlib.tlc(SPECDIR, MOD, "X.cfg", workdir=os.path.join(ck.dir, "tlc-" + tag), timeout=timeout, seed=seed, workers=workers,
                    extra_files={"X.cfg": cfg_with(base, **subst)})


def long_cases():
    """Very long linear chains (the protocol maximum gpbft.ChainMaxLen = 128 only shows here); all instances
    lie inside the committee look-back window, so every committee table is the initial one (ctab = 0)."""
    out = []
    n = 300
    par = list(range(n))
    eps = [[i for i in range(n)], [i + i // 7 for i in range(n)]]
    for ep in eps:
        for plen in (100, 127, 128, 129, 200, 1000):
            for hl in (0, 3):
                for (f0, fin, head) in ((1, [5], n), (1, [], n), (3, [5, 130], 290), (20, [140], 120), (2, [10], 137), (2, [10], 138)):
                    k = len(fin)
                    out.append(dict(par=par, ep=ep, head=head, head2=n - 1, init=1, L=3, hl=hl, plen=plen, bootE=ep[f0 - 1],
                                    now=2 * (ep[head - 1] + 1) + 9, f0=f0, fin=fin, ctab=[0] * (k + 1)))
    return out


def design(ck):
    quick = ck.tier == "quick"
    jobs = [("design-proposal", "MCProposal.cfg", dict(MaxN=4, PLens="{1, 2, 4}", Ks="{0, 2}") if quick else dict(MaxN=4), 600 if quick else 1500),
            ("design-committee", "MCCommittee.cfg", dict(MaxN=4) if quick else dict(MaxN=6), 600 if quick else 1500),
            # non-vacuity: named deviations of the reference must break a clause
            ("mutant-no_collapse", "MCProposal.cfg", dict(MaxN=3, Dev='"no_collapse"'), 400),
            ("mutant-base_from_head", "MCProposal.cfg", dict(MaxN=3, Dev='"base_from_head"'), 400),
            ("mutant-lookback_off_by_one", "MCProposal.cfg", dict(MaxN=3, Dev='"lookback_off_by_one"'), 400),
            ("mutant-no_freshness", "MCProposal.cfg", dict(MaxN=3, Dev='"no_freshness"'), 400),
            ("mutant-committee_plus1", "MCCommittee.cfg", dict(MaxN=3, Dev='"committee_plus1"'), 400)]
    if not quick:   # 5-tipset trees with the boundary values of every parameter
        jobs.insert(1, ("design-proposal5", "MCProposal.cfg", dict(MaxN=5, HLs="{0, 1}", PLens="{2, 4}", Ks="{0, 2}"), 1500))
    ncases = 600 if quick else 3000
    jobs.append(("cases", "MCCases.cfg", dict(NCases=ncases), 600 if quick else 1500))
    with ThreadPoolExecutor(max_workers=4) as ex:
        futs = {}
        for tag, base, subst, to in jobs:
            kw = dict(seed=ck.seed, workers=1) if tag == "cases" else dict(workers=4)
            futs[tag] = ex.submit(run_cfg, ck, tag, base, to, **kw, **subst)
        res = {tag: f.result() for tag, f in futs.items()}
    for tag in [t for t in res if t.startswith("design-")]:
        ck.require_tlc_ok(tag, res[tag])
        ck.add_tlc(tag, res[tag], note="input space enumerated as states; every C15 clause evaluated on the reference's output")
    for tag, r in res.items():
        if tag.startswith("mutant-"):
            if r.error and not r.violated:
                raise Inconclusive("%s: TLC error %s\n%s" % (tag, r.error, r.out[-2000:]))
            if not r.violated:
                raise Inconclusive("design check is vacuous: deviation %s of the reference breaks no clause" % tag)
            ck.cov["configs"].append(dict(config=tag, violated=r.violated, distinct=r.distinct, wall_s=round(r.wall, 1),
                                          note="required counterexample found"))
    ck.cov["exhaustive"] = True
    r = res["cases"]
    ck.require_tlc_ok("cases", r, what="case generation")
    cases = []
    for line in r.printed:
        if line.startswith('"{'):
            cases.append(json.loads(json.loads(line)))
    if len(cases) < ncases * 0.8:
        raise Inconclusive("case generation produced only %d of %d cases" % (len(cases), ncases))
    return cases


def stats(events):
    st = dict(cases=0, proposals=0, committees=0, begins=0, collapsed_offchain=0, head_behind_base=0, null_round_in_chain=0,
              capped_by_length=0, protocol_max=0, fresh_or_lookback_trim=0, bootstrap_base=0, committee_after_window=0,
              committee_error=0, begin_truncated=0, begin_rejected=0, forks=0)
    cur = None
    for e in events:
        k = e["ev"]
        if k == "Case":
            cur = e
            st["cases"] += 1
            if len(set(cur["par"])) < len(cur["par"]):
                st["forks"] += 1
        elif k == "Proposal":
            st["proposals"] += 1
            if e["err"]:
                continue
            head = cur["head"] if e["node"] == "A" else cur["head2"]
            anc = set()
            t = head
            while t:
                anc.add(t)
                t = cur["par"][t - 1]
            base = e["chain"][0]
            ch = e["chain"]
            if base not in anc:
                st["collapsed_offchain"] += 1
                if cur["ep"][head - 1] < cur["ep"][base - 1]:
                    st["head_behind_base"] += 1
            else:
                avail = 0
                t = head
                while t != base:
                    avail += 1
                    t = cur["par"][t - 1]
                if len(ch) - 1 < min(avail, min(128, cur["plen"]) - 1):
                    st["fresh_or_lookback_trim"] += 1
                if len(ch) == min(128, cur["plen"]) and avail > len(ch) - 1:
                    st["capped_by_length"] += 1
            if any(b - a > 1 for a, b in zip(e["eps"], e["eps"][1:])):
                st["null_round_in_chain"] += 1
            if len(ch) == 128:
                st["protocol_max"] += 1
            if e["inst"] == cur["init"]:
                st["bootstrap_base"] += 1
        elif k == "Committee":
            st["committees"] += 1
            if e["a"]["err"]:
                st["committee_error"] += 1
            elif e["i"] >= cur["init"] + cur["L"]:
                st["committee_after_window"] += 1
        elif k == "Begin":
            st["begins"] += 1
            if e["err"]:
                st["begin_rejected"] += 1
            elif e["len"] < e["n"]:
                st["begin_truncated"] += 1
    return st


def run(ck):
    cases = design(ck) + long_cases()
    os.makedirs(ck.dir, exist_ok=True)
    cfile = os.path.join(ck.dir, "cases-%d.ndjson" % ck.seed)
    vlib.write_ndjson(cfile, cases)
    binary = vlib.build_driver("inputs", ck.dir)
    trace = os.path.join(ck.dir, "inputs-%d.ndjson" % ck.seed)
    rc, out = vlib.run_driver(binary, "TestInputs", env=dict(VERIF_OUT=trace, VERIF_CASES=cfile), timeout=900)
    if rc != 0:
        raise Inconclusive("driver failed:\n" + out[-3000:])
    with open(trace, "a") as fh:
        fh.write('{"ev":"End"}\n')      # clauses are evaluated one line late (see ConsensusInputsTrace.tla)
    r, events = vlib.validate_trace(ck, SPECDIR, "ConsensusInputsTrace", "ConsensusInputsTrace.cfg", trace, "seed%d" % ck.seed,
                                    timeout=600 if ck.tier == "quick" else 2400,
                                    count_traces=lambda ev: sum(1 for e in ev if e["ev"] in ("Case", "Begin")))
    st = stats(events)
    ck.cov["event_counts"] = st
    for e in events[:400]:
        if e["ev"] == "Proposal" and len(e["chain"]) > 2:
            ck.sample(dict(proposal=e))
            break
    ck.sample(dict(first_events=events[:6]))
    for need in ("collapsed_offchain", "head_behind_base", "null_round_in_chain", "capped_by_length", "protocol_max",
                 "fresh_or_lookback_trim", "bootstrap_base", "committee_after_window", "committee_error", "begin_truncated",
                 "begin_rejected", "forks"):
        if not st[need]:
            raise Inconclusive("vacuous driver run: no row of class %s" % need)
    ck.cov["distinct_nontrivial"] = st["cases"] + st["begins"]
    ck.cov["rule"] = ("cases = (EC tree <=7 tipsets/<=3 leaves/null rounds, two heads, base anywhere, 0-3 certificates, head look-back, "
                      "proposal length, committee look-back, initial instance, clock around the freshness boundary) drawn by TLC (-seed) "
                      "from the enumerated space, plus 144 linear 300-tipset cases around gpbft.ChainMaxLen and participant starts on "
                      "over-long/malformed host chains; every GetProposal/GetCommittee/beginInstance result is one validated row")
    ck.assumptions += ["the EC backend answers consistently with one block tree (model backend behind ec.Backend)",
                       "certificates in the store form a valid chain (checked with certs.ValidateFinalityCertificates before use)",
                       "the bootstrap tipset is final: with no certificate two nodes are only compared on the initial power table"]
    import runnerstage          # additional conformance coverage: which instance the node works on, and when (host.go)
    runnerstage.runner_stage(ck)
    if ck.violations:
        return
    import powerstorestage      # the ec.Backend production hands to consensus: tables rebuilt from recorded deltas when EC refuses
    powerstorestage.powerstore_stage(ck)


MANIFEST = dict(
    text=("TLC enumerates EC block trees (<=4-5 tipsets exhaustively, forks, null rounds) x head x base tipset (behind/at/ahead, on/off the head's chain) "
          "x head look-back 0-2 x proposal length 1-4 x clock around the freshness boundary x 0-2 certificates (5 tipsets: boundary parameter values, thorough tier), and all certificate histories "
          "(<=4 certificates, look-back 2-3, initial instance 0-2) and checks the clauses of C15 on ConsensusInputs.tla; named deviations of the "
          "reference must break a clause. The production gpbftInputs (consensus_inputs.go) is then run over an ec.Backend serving TLC-drawn trees "
          "(<=7 tipsets) with real certificates in a real certstore, on two nodes with different heads, and a real gpbft.Participant is started on "
          "hosts returning over-long/malformed chains; TLC evaluates the C15 clauses on every returned proposal/committee (ConsensusInputsTrace.tla). While GetCommittee runs the EC backend hands out power entries in non-canonical order and a recording verifier captures the key list of Verifier.Aggregate: the committee's aggregate verifier must be keyed on the committee table's own order (C15_CommitteeVerifierCanonical). A further stage models the node-level runner (Runner.tla: certificate-driven instance advancement that never goes back, the initial choice between stored finality and the manifest's initial instance, replay of the node's own WAL-recorded votes of that instance, the scheduling function computeNextInstanceStart transcribed in integer milliseconds, certificates and alarms before messages; eleven mutants refuted) and validates tables and histories recorded from a production gpbftRunner against it: C15_InstanceFollowsFinality, C15_ProposalBaseIsFinalized (timing and replay order are conformance clauses)."),
    note=("Power-store stage (checks/powerstorestage.py, DESIGN 12.6): the ec.Backend production hands to consensus (internal/powerstore) is modelled in PowerStore.tla "
          "(loop iteration, restart, EC growth with null epochs, certificates, refused lookups, failing deletes; exhaustive within the epoch bound, 5 deviations refuted) and the real "
          "Store with its real loop on a mock clock is trace-validated; C15_PowerStoreExact: a table obtained through it is EC's table at that tipset or an error. "
          "Trusted: TLC, the model EC backend and the decoding of keys/CIDs/beacons to ids in harness/drivers/inputs (no oracle in Go). "
          "Interpretation: 'configured maxima' includes the head look-back and the one-EC-period freshness margin (a proposal reaching closer to the head is a violation; "
          "a shorter one is only spec drift). Bounded: tree sizes above; cases beyond the exhaustive bound are sampled (seeded)."),
    technique="TLA+ reference function model-checked with TLC over the enumerated input space + TLC validation of recorded outputs of the production code",
    design_ref="DESIGN.md section 6 C15")

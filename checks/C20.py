"""C20 certificate polling adapts its cadence to certificate production.

design:  TLC checks on spec/exchange/Polling.tla + PollingLoop.tla (subscriber round + predictor transcribed from
         predictor.go in integer ticks) that progress equals the advance, the armed delay stays in the stated
         envelope, and the cadence monitors hold over a grid of (min, initial, max) x production patterns;
         MCPredictor feeds the spec predictor every short progress sequence; a named deviation must fail.
binding: harness/drivers/polling records (P) the REAL predictor on the TLC-generated sequences and closed over
         production patterns, (A) single rounds of the REAL Subscriber (CatchUp + poll) against mocknet peers,
         (R) the REAL Subscriber.run loop on a mock clock; TLC validates every record against PollingTrace.tla."""
import os, json, collections
from concurrent.futures import ThreadPoolExecutor
import vlib
from vlib import Inconclusive

LEVEL = "model_checking"
SPECDIR = os.path.join(vlib.SPEC, "exchange")
RESETS = ("PReset", "AReset", "RReset")


def emitted(res):
    return [json.loads(json.loads(l)) for l in res.printed if l.startswith('"{')]


def chunks(events, size):
    """split a trace at reset events into pieces of about `size` lines (each starts with a reset)"""
    out, cur = [], []
    for e in events:
        if e["ev"] in RESETS and len(cur) >= size:
            out.append(cur)
            cur = []
        cur.append(e)
    if cur:
        out.append(cur)
    return out


def run(ck):
    thorough = ck.tier == "thorough"
    d = ck.dir
    pool = ThreadPoolExecutor(max_workers=7)
    to = 900 if not thorough else 2400
    jobs = {
        "steady": pool.submit(vlib.tlc, SPECDIR, "MCPolling", "MCPolling.cfg", os.path.join(d, "tlc-design-steady"), 4, to),
        "patterns": pool.submit(vlib.tlc, SPECDIR, "MCPolling", "MCPollingPatterns.cfg", os.path.join(d, "tlc-design-patterns"), 3, to),
        "delay": pool.submit(vlib.tlc, SPECDIR, "MCPolling", "MCPollingDelay.cfg", os.path.join(d, "tlc-design-delay"), 2, to),
        "mutant": pool.submit(vlib.tlc, SPECDIR, "MCPolling", "MCPollingMutant.cfg", os.path.join(d, "tlc-mutant"), 1, 300),
        "predictor": pool.submit(vlib.tlc, SPECDIR, "MCPredictor", "MCPredictor%s.cfg" % ("thorough" if thorough else ""), os.path.join(d, "tlc-design-predictor"), 2, to),
        "build": pool.submit(vlib.build_driver, "polling", d),
    }
    res = {k: f.result() for k, f in jobs.items()}
    notes = dict(steady="closed loop, steady production: 6 settings x up to 15 periods x 3 phases, 200 rounds each",
                 patterns="closed loop, steady->stall->resume and steady->burst->steady, 420 rounds each",
                 delay="request time in {0, short, long, > interval} x local arrival while polling, 5 rounds",
                 predictor="spec predictor on every progress sequence (open loop); sequences emitted for the real predictor")
    for k in ("steady", "patterns", "delay", "predictor"):
        ck.require_tlc_ok(k, res[k])
        ck.add_tlc("design:" + k, res[k], note=notes[k])
    if res["mutant"].violated != "InvDelayEnvelope":
        raise Inconclusive("non-vacuity: deviation OffsetMax did not violate InvDelayEnvelope (violated=%s error=%s)" % (res["mutant"].violated, res["mutant"].error))
    ck.cov["exhaustive"] = True
    seqs = emitted(res["predictor"])
    if not seqs:
        raise Inconclusive("no progress sequences emitted by MCPredictor")
    seqf = os.path.join(d, "seqs.ndjson")
    vlib.write_ndjson(seqf, seqs)
    binary = res["build"]

    seeds = [ck.seed] if not thorough else [ck.seed + i for i in range(3)]
    problems = []
    for s in seeds:
        env = dict(VERIF_SEED=str(s), GOLOG_LOG_LEVEL="error")
        if thorough:
            env.update(VERIF_PRUNS="160", VERIF_ASCEN="18", VERIF_AROUNDS="100", VERIF_RRUNS="16")
        tr = {k: os.path.join(d, "%s-%d.ndjson" % (k, s)) for k in ("pred", "rounds", "run")}
        first = s == seeds[0]
        runs = [pool.submit(vlib.run_driver, binary, "TestPredictor", dict(env, VERIF_OUT=tr["pred"], VERIF_SEQS=seqf if first else ""), 900),
                pool.submit(vlib.run_driver, binary, "TestRounds", dict(env, VERIF_OUT=tr["rounds"]), 1500),
                pool.submit(vlib.run_driver, binary, "TestRunLoop", dict(env, VERIF_OUT=tr["run"]), 2400)]
        for f in runs:
            rc, out = f.result()
            if rc != 0:
                raise Inconclusive("driver failed:\n" + out[-3000:])
        pieces = []
        for k in ("pred", "rounds", "run"):
            ev = vlib.read_ndjson(tr[k])
            for i, ch in enumerate(chunks(ev, 30000)):
                p = os.path.join(d, "%s-%d.%d.ndjson" % (k, s, i))
                vlib.write_ndjson(p, ch)
                pieces.append((p, "%s-seed%d-%d" % (k, s, i)))

        def val(piece):
            try:
                return vlib.validate_trace(ck, SPECDIR, "PollingTrace", "PollingTrace.cfg", piece[0], piece[1], timeout=2400,
                                           count_traces=lambda ev: sum(1 for e in ev if e["ev"] in RESETS))
            except Inconclusive as e:
                return e
        windows = collections.Counter()
        for piece, v in zip(pieces, pool.map(val, pieces)):
            if isinstance(v, Inconclusive):
                problems.append(v)
            else:
                windows[piece[1].split("-")[0]] += v[0].out.count('"VERIF_WINDOW"')
        ck.cov.setdefault("settle_windows_judged", {})["seed%d" % s] = dict(windows)
        if not problems and not ck.violations and (not windows["pred"] or not windows["run"]):
            raise Inconclusive("vacuous: no settle window was judged on the real predictor / run loop outputs: %s" % dict(windows))
        if not ck.violations:
            vacuity(ck, {k: vlib.read_ndjson(tr[k]) for k in tr}, s, first)
    if problems and not ck.violations:
        raise problems[0]
    ck.cov["distinct_nontrivial"] = ck.cov["traces_validated_against_impl"]
    ck.cov["rule"] = ("one per recorded run: open-loop progress sequence or closed-loop production pattern on the real predictor, accessor-driven "
                      "scenario of single rounds, run of the real Subscriber.run loop on a mock clock; every round/update judged by TLC")
    ck.assumptions += ["one tick = 1 ns of the mock clock; settings are 1000x smaller than production settings (same integer arithmetic, values < 2^31)",
                       "peers answer with the store contents at pollTime; request latency is injected by advancing the mock clock inside the peers' stream handlers",
                       "the delay armed by run is read from the predictedPollingInterval gauge recorded right after timer.Reset and cross-checked by stepping the "
                       "clock to one tick before it",
                       "settle monitor: after 64 rounds of a steady segment, in every block of 136 rounds >= 3/4 of the waits lie in [T/2, 2T] and polls per "
                       "certificate lie in [0.8, 1.25] (the real predictor makes isolated excursions, see report)"]


def vacuity(ck, tr, s, first):
    k = collections.Counter()
    for e in tr["pred"]:
        k["p-" + e["ev"]] += 1
        if e["ev"] == "PReset":
            k["p-closed" if e["closed"] else "p-open"] += 1
    for e in tr["rounds"]:
        if e["ev"] != "ARound":
            continue
        k["a-round"] += 1
        if e["polled"]:
            k["a-polled"] += 1
            if e["progress"] >= 2:
                k["a-multi"] += 1
            if e["progress"] > 0 and not e["newcert"]:
                k["a-localduring"] += 1
            if e["progress"] == 0:
                k["a-zero"] += 1
        else:
            k["a-catchup"] += 1
    for e in tr["run"]:
        if e["ev"] != "Round":
            k["r-" + e["ev"]] += 1
            continue
        k["r-round"] += 1
        pr, polled = e["na"] - e["nb"], e["sb"] == e["nb"]
        if not polled:
            k["r-catchup"] += 1
        if polled and pr > 0 and e["sa"] - e["sb"] - e["local_in"] <= 0 and e["rt"] > 0:
            k["r-offset"] += 1
        if pr == 0:
            k["r-zero"] += 1
        if pr >= 2:
            k["r-multi"] += 1
        if e["armed"] == 0:
            k["r-clamped"] += 1
        if e["rt"] > 0:
            k["r-latency"] += 1
    ck.cov.setdefault("event_counts", {})["seed%d" % s] = dict(k)
    need = ["p-closed", "a-polled", "a-multi", "a-localduring", "a-zero", "a-catchup", "r-round", "r-catchup", "r-offset", "r-zero", "r-multi",
            "r-clamped", "r-latency"] + (["p-open"] if first else [])
    for n in need:
        if not k.get(n):
            raise Inconclusive("vacuous driver run: no %s" % n)
    if k.get("r-Stuck"):
        raise Inconclusive("run loop did not fire at the delay reported by the gauge")
    ck.sample(dict(trace="run-seed%d" % s, events=[e for e in tr["run"] if e["ev"] == "Round"][:2]))
    ck.sample(dict(trace="rounds-seed%d" % s, events=[e for e in tr["rounds"] if e["ev"] == "ARound" and e["polled"]][:1]))


def replay(ck, obj):
    """re-validate the recorded trace a violation file points at (python3 tools/check.py C20 --replay <file>)"""
    vlib.validate_trace(ck, SPECDIR, "PollingTrace", "PollingTrace.cfg", obj["replay"]["trace"], "replay")


MANIFEST = dict(
    text=("TLC checks on Polling.tla/PollingLoop.tla (subscriber round: CatchUp, poll, progress := next_after - next_before, interval := Predict(progress) with the predictor "
          "transcribed from predictor.go in Go integer arithmetic, delay := max(pollTime+interval-now,0) + min(offset, delay/2)) that progress equals the advance, the delay lies "
          "in [base, base+min(request time, interval/2)], and that over a grid of 6 (min, initial, max) settings x steady periods/phases, stall+resume and burst patterns the wait "
          "settles at the production period, shrinks on consecutive multi-certificate rounds and backs off on consecutive empty rounds; every progress sequence of length <= 5 (6) "
          "is fed to the spec predictor. The real predictor is fed the same sequences and closed over random production patterns, the real Subscriber is driven round by round "
          "(accessors) and through its real run loop on a mock clock against mocknet peers (lagging, failing, slow, forged certificate, certificates arriving locally before/while "
          "polling); TLC validates every recorded update/round against PollingTrace.tla (progress, delay envelope, cadence monitors on the real outputs, Conf_Predictor)."),
    note=("Trusted: TLC, the recorder and environment (production pattern, latency injection) in harness/drivers/polling, mocknet, the mock clock, the gauge as witness of "
          "the armed delay (cross-checked against the timer). Bounded: settings scaled to ticks < 2^31; cadence is judged by a block monitor (>= 3/4 of waits within "
          "[T/2, 2T], polls per certificate within [0.8, 1.25]) because the real predictor does not stay in a narrow band forever; peer selection is not modelled."),
    technique="TLA+ spec model-checked with TLC; real predictor, polling rounds and run loop recorded and validated by TLC against the spec",
    design_ref="DESIGN.md section 6 C20")

"""C06 termination under eventual synchrony."""
import vlib, conslib
from vlib import Inconclusive
LEVEL = "model_checking"


def run(ck):
    pass
    plan = [("gst", 40)] if ck.tier == "quick" else [("gst", 1200)]
    seeds = [ck.seed] if ck.tier == "quick" else [ck.seed, ck.seed + 1000]
    traces, st = conslib.run_layers(ck, plan, ["C06_"], seeds=seeds, conformance=(ck.tier != "quick"))
    g = conslib.gst_stats(traces)
    ck.cov["antecedents"].update(g)
    if g["runs_round_gt0_at_gst"] < 3 or g["runs_with_byz_before_gst"] < 3:
        raise Inconclusive("vacuous run: stabilisation never hit a late round / no Byzantine history: %s" % g)
    ck.cov["distinct_nontrivial"] = g["gst_runs"]
    ck.cov["rule"] = ("a case = one run of real participants with their own timers: arbitrary delay/reorder, staggered starts and Byzantine messages before stabilisation (no loss between "
                      "honest members), delivery within the synchrony bound and silent faulty members afterwards; TLC evaluates C06_DecidesWithinBound on the End record "
                      "(bound +6 rounds when no Byzantine message was ever delivered, +40 otherwise; the driver stops a run at the bound)")


MANIFEST = dict(
    text=("Liveness is checked by TLC on GPBFTSync.tla (synchronous tail, fairness) at design level; on the code, partially synchronous runs of real participants with their real timers, "
          "back-off and rebroadcast are recorded and TLC evaluates the termination clause (every started honest participant decides within the stated round bound after stabilisation)."),
    note="Trusted: TLC, the driver's virtual clock and network model of partial synchrony. The design-level liveness result covers bounded prefixes only; the weight rests on the recorded runs (sampled).",
    technique="TLC liveness check of GPBFTSync.tla + TLA+ termination clause evaluated on recorded partially-synchronous runs of real participants",
    design_ref="DESIGN.md section 6 C06")

"""C06 termination under eventual synchrony."""
import vlib, conslib
from vlib import Inconclusive
LEVEL = "model_checking"


def run(ck):
    quick = ck.tier == "quick"
    # (D) MCGPBFTSync.tla: arbitrary asynchronous prefix with Byzantine messages, stabilisation, quiescence-gated timeouts; no stuck state
    #     (deadlock freedom) and the round bound, by TLC simulation; the mutant "only the full proposal becomes a candidate" (the defect repaired
    #     by the fix: commit cdd137c) must violate the round bound
    hists = []
    for k, (model, prefix) in enumerate([("nest", 25), ("nest3", 12)] if quick else [("nest", 25), ("nest3", 12), ("fork", 40), ("nest", 0), ("nest3", 40)]):
        hists += [(model, h) for h in conslib.sync_design(ck, "sync%d" % k, model, 60 if quick else 1500, prefix, ck.seed + k)]
    conslib.sync_design(ck, "syncmut", "nest3", 200 if quick else 600, 25, ck.seed, overrides=["AddCandPrefixes <- AddCandOnlyFull"], expect_refuted=True, export=False)
    # (T) real participants with their own timers, back-off and rebroadcast under partial synchrony
    plan = [("gst", 40)] if quick else [("gst", 400)]
    seeds = [ck.seed] if quick else [ck.seed, ck.seed + 1000]
    traces, st = conslib.run_layers(ck, plan, ["C06_"], seeds=seeds, conformance=not quick)
    g = conslib.gst_stats(traces)
    # (R) the schedules TLC chose on the design model (prefix + synchronous tail) replayed on real participants; afterwards the network stays timely
    if not ck.violations:
        for model in sorted({m for m, _ in hists}):
            hs = [h for m, h in hists if m == model][: (40 if quick else 800)]
            tr = conslib.replay_conformance(ck, ck.binary, model, hs, ["C06_"], tag="rsync" + model, conformance=not quick, sync=True)
            g2 = conslib.gst_stats(tr)
            g["sync_replays"] = g.get("sync_replays", 0) + g2["gst_runs"]
    ck.cov["antecedents"].update(g)
    if not ck.violations and (g["runs_round_gt0_at_gst"] < 3 or g["runs_with_byz_before_gst"] < 3 or not g.get("sync_replays")):
        raise Inconclusive("vacuous run: stabilisation never hit a late round / no Byzantine history / no replay: %s" % g)
    ck.cov["distinct_nontrivial"] = g["gst_runs"] + g.get("sync_replays", 0)
    ck.cov["rule"] = ("design: random walks of MCGPBFTSync.tla (prefix, stabilisation, quiescence-gated timeouts), stuck states = deadlocks, round bound +2 as invariant; code: a case = one "
                      "run of real participants with their own timers: arbitrary delay/reorder, staggered starts and Byzantine messages before stabilisation (no loss between honest "
                      "members), delivery within the synchrony bound and silent faulty members afterwards, plus replays of the TLC-chosen schedules; TLC evaluates C06_DecidesWithinBound on "
                      "the End record (every started honest participant decided, highest round reached <= highest round at stabilisation +6 when no Byzantine message was ever delivered, +40 otherwise)")
    ck.assumptions += ["sim/signing.FakeBackend stands for BLS", "the driver's virtual clock and network model of partial synchrony",
                       "design model: timeouts fire only when the network is quiescent (timer arithmetic is exercised on the real participants only)"]


MANIFEST = dict(
    text=("Termination is checked by TLC on MCGPBFTSync.tla, the implementation-shaped per-message model extended with stabilisation: after an arbitrary asynchronous prefix (any order, any "
          "validly signed Byzantine message) faulty members fall silent, every honest vote is delivered and timeouts fire only at quiescence; on every random walk no state is stuck "
          "(deadlock freedom) and nobody moves more than 2 rounds beyond the round reached at stabilisation; the mutant reproducing the repaired candidate-prefix defect must violate the bound. "
          "On the code, partially synchronous runs of real participants with their real timers, back-off and rebroadcast, and replays of the TLC-chosen schedules, are recorded and TLC "
          "evaluates the termination clause (every started honest participant decides within the stated round bound after stabilisation)."),
    note="Trusted: TLC, the driver's virtual clock and network model of partial synchrony. The design-level result is simulation (sampled walks), with quiescence-gated timeouts instead of timer arithmetic; the real timers are exercised by the recorded runs (sampled).",
    technique="TLC simulation of MCGPBFTSync.tla (deadlock freedom + round bound) + replay of its schedules and TLA+ termination clause on recorded partially-synchronous runs of real participants",
    design_ref="DESIGN.md section 6 C06")

"""C03 every reported decision is a self-contained verifiable finality proof."""
import vlib, conslib
from vlib import Inconclusive
LEVEL = "model_checking"


def run(ck):
    # (D) construction rule of the reported justification: all arrival orders of <= 6 DECIDE votes x 6 power tables (equal, dominant member,
    #     zero-scaled member, exact 2/3 boundary, skewed, 5 equal), equivocating senders; two mutants must be refuted
    conslib.simple_design(ck, "MCDecision", ["MCDecision"], ["MCDecision_mutAll", "MCDecision_mutShort"],
                          note="all arrival orders x 6 power tables; clauses of the C03 sentence as invariants")
    plan = [("random", 30), ("uniform", 8)] if ck.tier == "quick" else [("random", 300), ("uniform", 60), ("gst", 40)]
    seeds = [ck.seed] if ck.tier == "quick" else [ck.seed, ck.seed + 1000]
    conslib.run_layers(ck, plan, ["C03_"], seeds=seeds, conformance=(ck.tier != "quick"))
    a = ck.cov["antecedents"]
    if a.get("decisions", 0) < 20 or not a.get("zero_power_runs") or not a.get("two_instance_runs"):
        raise Inconclusive("vacuous run: too few decisions / no zero-power table / no second instance: %s" % a)
    ck.cov["distinct_nontrivial"] = a["decisions"]
    ck.cov["rule"] = ("every ReceiveDecision of every run is one case: the justification's fields, signer ids and their scaled powers, the real VerifyAggregate over the "
                      "payload rebuilt from (instance, round 0, DECIDE, supplemental data, decided value), and real NewFinalityCertificate + ValidateFinalityCertificates on a second "
                      "copy of the table are recorded; TLC evaluates the C03 sentence clause by clause on each")
    ck.assumptions += ["FakeBackend stands for BLS", "power table unchanged between instances (empty delta) in the driver's runs"]


MANIFEST = dict(
    text=("The C03 sentence is split into TLA+ clauses (shape: instance/round 0/DECIDE/supplemental data; signers distinct, inside the committee, non-zero scaled power; strong quorum of "
          "the instance's table; aggregate verifies over exactly the decided value; certificate accepted on a second table copy) evaluated by TLC on every decision that real "
          "participants report in recorded runs (6 power tables incl. a zero-scaled member, Byzantine-fed, 1-2 instances). Decision.tla checks the construction rule (minimal "
          "index-ordered strong quorum of DECIDE voters) for all arrival orders x power tables at design level."),
    note="Trusted: TLC, driver recorder, FakeBackend, certs package as the certificate validator of 'any node'. Sampled schedules; exhaustive only in Decision.tla's bounds.",
    technique="TLA+ clause monitors evaluated by TLC on recorded decisions of real participants + TLC-exhaustive Decision.tla",
    design_ref="DESIGN.md section 6 C03")

"""C17 snapshots: export/import reproduces the store, malformed snapshots are rejected.
Design check of spec/certstore/Snapshot.tla (TLC, exhaustive over bounded stores x end points x corruptions and over a
bounded space of arbitrary snapshots; named deviations must be refuted) + trace validation of the real
ExportSnapshot / ExportLatestSnapshot / ImportSnapshotToDatastore against spec/certstore/SnapshotTrace.tla (monitors C17_*)."""
import os, json, hashlib, threading
import vlib
from vlib import Inconclusive

LEVEL = "model_checking"
SPECDIR = os.path.join(vlib.SPEC, "certstore")

# named deviation of Snapshot.tla -> the design invariant TLC must refute
MUTANTS = {"MCSnapshot_mutNoHeaderLatest.cfg": "RejectsCorrupt", "MCSnapshot_mutNoFinal.cfg": "RejectsCorrupt",
           "MCSnapshot_mutNoCheckpoint.cfg": "RejectsCorrupt", "MCSnapshot_mutNoContiguity.cfg": "RejectsCorrupt",
           "MCSnapshot_mutNoManifest.cfg": "RejectsCorrupt", "MCSnapshot_mutExportExclusive.cfg": "RoundTrip"}
LISTED = ("trunc", "gap", "reorder", "surplus", "dup", "header", "hdrinit", "manifest", "baddelta")
OBSERVED_ONLY = ("obs-trail-len", "obs-trail-mid", "obs-sig", "obs-midcomp", "obs-midcommit", "obs-netname", "emptyexport")


def need(cond, what):
    if not cond:
        raise Inconclusive("vacuous driver run: " + what)


def design(ck, cfgs, timeout):
    """Exhaustive TLC runs of MCSnapshot (every case is an initial state, so a run is essentially one thread; at most four at a
    time) together with every mutant cfg (must be refuted; found within the first initial states)."""
    res = {}
    sem = threading.Semaphore(4)

    def one(name, workers, to):
        with sem:
            res[name] = vlib.tlc(SPECDIR, "MCSnapshot", name, workdir=os.path.join(ck.dir, "tlc-" + name), timeout=to, workers=workers)

    ths = [threading.Thread(target=one, args=(c, 2, timeout)) for c in cfgs] + [threading.Thread(target=one, args=(m, 1, 600)) for m in MUTANTS]
    for t in ths:
        t.start()
    for t in ths:
        t.join()
    notes = {"MCSnapshot.cfg": "every well-formed store (first 0/3, <= 3 certificates over 3 tables, checkpoint frequency 2) x every export end point x "
                               "{matching manifests, truncation at/inside each block (3 kinds of torn tail), gap, swap, duplicated/appended certificate, header "
                               "first/latest +-1, manifest instance/table mismatch, delta missing the committed table (compensated or not), trailing junk}",
             "MCSnapshotF2.cfg": "as MCSnapshot.cfg with <= 4 certificates",
             "MCSnapshotThorough.cfg": "as MCSnapshot.cfg with <= 5 certificates and checkpoint frequency 3",
             "MCSnapshotSpace.cfg": "every snapshot of <= 2 arbitrary blocks (4 instance numbers x 4 deltas x 3 committed tables), any header: Import accepts iff Valid",
             "MCSnapshotSpace6.cfg": "as MCSnapshotSpace.cfg with 6 instance numbers",
             "MCSnapshotSpaceThorough.cfg": "every snapshot of <= 3 arbitrary blocks (4 instance numbers x 3 deltas x 2 tables): Import accepts iff Valid"}
    for c in cfgs:
        ck.require_tlc_ok(c, res[c])
        ck.add_tlc("design:" + c, res[c], note=notes.get(c, ""))
    ck.cov["exhaustive"] = True
    for mcfg, inv in MUTANTS.items():
        m = res[mcfg]
        if m.error or m.violated != inv:
            raise Inconclusive("non-vacuity: mutant configuration %s should violate %s, TLC says violated=%s error=%s\n%s"
                               % (mcfg, inv, m.violated, m.error, m.out[-1500:]))
        ck.cov["configs"].append(dict(config="mutant:" + mcfg, refuted_invariant=inv, counterexample_states=len(m.trace), wall_s=round(m.wall, 1),
                                      note="named deviation of the spec; TLC must (and does) find a counterexample"))


def drive(ck, binary, test, name, env, timeout=900):
    trace = os.path.join(ck.dir, "%s.ndjson" % name)
    e = dict(VERIF_OUT=trace)
    e.update({k: str(v) for k, v in env.items()})
    rc, out = vlib.run_driver(binary, test, env=e, timeout=timeout)
    if rc != 0:
        raise Inconclusive("driver %s failed (rc=%d):\n%s" % (test, rc, out[-3000:]))
    return trace


def validate(ck, trace, name, timeout=900):
    r, ev = vlib.validate_trace(ck, SPECDIR, "SnapshotTrace", "SnapshotTrace.cfg", trace, name, timeout=timeout,
                                count_traces=lambda evs: sum(1 for e in evs if e["ev"] == "Store"))
    return ev


def stats(ck, ev, name, big=False):
    """Measured facts about one recorded trace + vacuity guards (every corruption class and boundary really occurred)."""
    cls, verdicts, torn, apis, firsts, freqs = {}, {}, {}, {}, set(), set()
    cross_low = cross_prod = 0
    exports = dict(latest=0, end=0, end_below_latest=0, out_of_range=0, digests=0)
    cp_comp = end_bad = next_surplus = man_first = man_table = panics = 0
    distinct = set()
    store = None
    for e in ev:
        k = e["ev"]
        if k == "Store":
            store = e
            firsts.add(e["first"])
            freqs.add(e["F"])
            if any((c["inst"] + 1) % e["F"] == 0 for c in e["certs"][:-1]):
                if e["F"] == 1440:
                    cross_prod += 1
                else:
                    cross_low += 1
        elif k == "Export":
            if e["err"] == "" and e["panic"] == "":
                exports[e["api"]] += 1
                exports["digests"] += 1
                if e["api"] == "end" and e["e"] < store["first"] + len(store["certs"]) - 1:
                    exports["end_below_latest"] += 1
            else:
                exports["out_of_range"] += 1
        elif k == "Import":
            c = e["class"]
            cls[c] = cls.get(c, 0) + 1
            acc = e["err"] == "" and e["panic"] == ""
            key = "%s:%s" % (c, "accepted" if acc else ("panic" if e["panic"] else "rejected"))
            verdicts[key] = verdicts.get(key, 0) + 1
            apis[e["api"]] = apis.get(e["api"], 0) + 1
            panics += 1 if e["panic"] else 0
            s = e["s"]
            if c == "trunc":
                t = "header" if s["hdrTorn"] else ("boundary" if s["torn"] == "" else s["torn"])
                torn[t] = torn.get(t, 0) + 1
            nb = len(s["blocks"])
            if c == "baddelta" and nb:
                # the last certificate's delta / committed table is off and no checkpoint check looks at it: only the final check can notice
                if e["variant"] in ("kept", "commit") and e["pos"] == nb and (s["blocks"][-1]["inst"] + 1) % e["F"] != 0:
                    end_bad += 1
                # one unit too much at a checkpoint, taken back by the next certificate: only the checkpoint check can notice
                if e["variant"] == "takenback":
                    cp_comp += 1
            if c == "surplus" and nb >= 2 and s["blocks"][-1]["inst"] == s["latest"] + 1 and s["blocks"][-2]["inst"] == s["latest"]:
                next_surplus += 1
            if c == "manifest":
                if e["man"]["first"] != s["first"]:
                    man_first += 1
                if e["man"]["hasTable"] and e["man"]["table"] != s["init"]:
                    man_table += 1
            distinct.add(hashlib.sha1(json.dumps([s, e["man"], e["F"], e["api"]], sort_keys=True).encode()).hexdigest())
    ck.cov.setdefault("import_class_counts", {})[name] = cls
    ck.cov.setdefault("import_verdicts", {})[name] = verdicts
    ck.cov.setdefault("truncation_points", {})[name] = torn
    ck.cov.setdefault("exports", {})[name] = exports
    ck.cov.setdefault("checkpoint_crossings", {})[name] = dict(lowered_frequency=cross_low, production_1440=cross_prod)
    ck.cov["distinct_nontrivial"] += len(distinct)
    need(panics == 0 or ck.violations, "a panic was recorded but no clause judged it")
    for c in ("trunc", "gap", "reorder", "surplus", "header", "manifest", "baddelta", "none") + (() if big else ("dup", "hdrinit")):
        need(cls.get(c), "no import of class %s in %s" % (c, name))
    need(verdicts.get("none:accepted", 0) >= (2 if big else 20) or ck.violations, "too few accepted round trips in " + name)
    need(end_bad and cp_comp, "no delta corruption visible only to the final check / only to a checkpoint check in " + name)
    ck.cov.setdefault("delta_corruptions", {})[name] = dict(only_final_check=end_bad, only_checkpoint_check=cp_comp)
    need(exports["latest"] and exports["end"], "an export API was not exercised in " + name)
    need(apis.get("public") and apis.get("test"), "an import API (public / test frequency) was not exercised in " + name)
    if big:
        need(cross_prod, "the long store did not cross the production checkpoint")
        return
    for t in ("header", "boundary", "len", "mid"):
        need(torn.get(t), "no truncation of kind %s in %s" % (t, name))
    for c in OBSERVED_ONLY:
        need(cls.get(c), "no import of class %s in %s" % (c, name))
    need(next_surplus, "no surplus import that appends the exporter's own next certificate in " + name)
    need(man_first and man_table, "manifest mismatch of instance / table not exercised in " + name)
    need(exports["end_below_latest"], "no ExportSnapshot(end) below the latest instance in " + name)
    need(firsts >= {0, 3}, "first instances 0 and 3 not both exercised in " + name)
    need(cross_low >= 3 and cross_prod >= 1, "checkpoint frequency (lowered / production) not crossed in " + name)


def histories(ck, binary, seed, n, maxlen, every, name, timeout=900):
    trace = drive(ck, binary, "TestSnapshot", name, dict(VERIF_SEED=seed, VERIF_N=n, VERIF_MAXLEN=maxlen, VERIF_EVERYBYTE=every))
    ev = validate(ck, trace, name, timeout=timeout)
    stats(ck, ev, name)
    ck.sample(dict(trace=name, first_events=[json.dumps(e)[:700] for e in ev[:4]]))


def run(ck):
    quick = ck.tier == "quick"
    design(ck, ["MCSnapshot.cfg", "MCSnapshotSpace.cfg"] if quick else
           ["MCSnapshotThorough.cfg", "MCSnapshotSpaceThorough.cfg", "MCSnapshotF2.cfg", "MCSnapshotSpace6.cfg"], timeout=300 if quick else 1800)
    binary = vlib.build_driver("snapshot", ck.dir)
    if quick:
        histories(ck, binary, ck.seed, 12, 12, 600, "seed%d" % ck.seed)
    else:
        # record everything first (seconds), then validate the four traces side by side (one single-threaded TLC each)
        jobs = []
        for i in range(3):
            s = ck.seed + 1000 * i
            jobs.append(("seed%d" % s, drive(ck, binary, "TestSnapshot", "seed%d" % s,
                                             dict(VERIF_SEED=s, VERIF_N=30, VERIF_MAXLEN=30, VERIF_EVERYBYTE=2000)), False))
        jobs.append(("big", drive(ck, binary, "TestSnapshotBig", "big", dict(VERIF_SEED=ck.seed, VERIF_BIG=1500)), True))
        res, errs = {}, []

        def one(name, trace):
            try:
                res[name] = validate(ck, trace, name, timeout=2400)
            except Exception as ex:      # Inconclusive or internal: re-raised below, in the main thread
                errs.append(ex)

        ths = [threading.Thread(target=one, args=(n, t)) for n, t, _ in jobs]
        for t in ths:
            t.start()
        for t in ths:
            t.join()
        if errs and not ck.violations:
            raise errs[0]
        for name, _, big in jobs:
            if name in res:
                stats(ck, res[name], name, big=big)
        ck.sample(dict(trace=jobs[0][0], first_events=[json.dumps(e)[:700] for e in res.get(jobs[0][0], [])[:4]]))
    ck.cov["rule"] = ("a case = one import of a distinct (byte string as header+blocks, manifest, checkpoint frequency, API) into an empty datastore; the byte "
                      "strings are real exports (ExportLatestSnapshot, ExportSnapshot at the latest / first / checkpoint / random end point) of real stores "
                      "(first instance 0, 3 or just below 1440; evolving, partly quiet and constant power tables over 3 participants; frequency 1..5 through "
                      "the accessor or 1440) and their corruptions: cut at every byte offset (small) or at/inside selected blocks, a block dropped, two blocks "
                      "swapped, a block duplicated, a certificate appended (copy, the exporter's own next one, a fabricated successor), header first/latest +-1, "
                      "header initial table changed, manifest instance/table mismatch, a delta one unit off (kept, or taken back by the next certificate "
                      "at a checkpoint), another committed table, a delta below zero; plus inputs outside the listed classes (conformance only)")
    ck.assumptions += ["the datastore is datastore.MapDatastore (sync-wrapped); imports always start from an empty datastore",
                       "power-table CID is collision free (modelled as the table itself); certificates are identified by the SHA-256 of their CBOR bytes",
                       "power tables over 3 participants with fixed keys and powers < 8 (the delta algebra itself is C04's subject)",
                       "'deltas do not reproduce the committed power tables' is read as: at a checkpoint of the importing frequency or after the last "
                       "certificate (what a store can observe); a mismatch confined to the middle of a checkpoint interval is recorded as an observation"]
    ck.notes += ["observation (not a C17 class): readSnapshotBlockBytes allocates make([]byte, n) for an unchecked varint n, so an inflated length prefix costs "
                 "memory before io.ReadFull fails (certstore/snapshot.go:237-241); not exercised with huge n (would kill the process rather than return)",
                 "observation: bytes that end right after a complete length prefix make io.ReadFull return io.EOF, which the import loop reads as the end of "
                 "the stream (snapshot.go:135, 242); a truncated snapshot is still rejected by the header.LatestInstance check, a complete snapshot followed by "
                 "a lone length prefix is accepted (class obs-trail-len, conformance only)",
                 "observation: the import does not validate signatures nor the committed table of certificates inside a checkpoint interval "
                 "(classes obs-sig, obs-midcomp, obs-midcommit are accepted; the property does not list them); the header version is not checked",
                 "observation: ExportSnapshot(end) with end < firstInstance succeeds and writes a header without certificates, which no import accepts "
                 "(class emptyexport); ExportSnapshot(end) with end > latest fails after having written header and all stored certificates to the writer"]


def replay(ck, obj):
    """check.py --replay <violation file>: validate the recorded trace of the violation again."""
    r = obj.get("replay") or {}
    trace = r.get("trace")
    if not trace or not os.path.exists(trace):
        raise Inconclusive("replay: recorded trace %s is gone; re-run the check with VERIF_SEED=%s" % (trace, obj.get("seed")))
    validate(ck, trace, "replay")


MANIFEST = dict(
    text=("TLC exhaustively checks on Snapshot.tla that Import(Export(st, e)) shows exactly st up to e (certificates, power table of every instance, latest) and "
          "that every corruption class of the property is rejected and recognised, for all stores with first instance 0/3, <= 3 (thorough: 5) certificates "
          "over 3 tables crossing the checkpoint frequency, all end points and all corruptions, and that Import accepts exactly the Valid snapshots over a "
          "bounded space of arbitrary blocks; six named deviations (no header-latest check, no final / checkpoint table check, no contiguity check, no "
          "manifest check, exclusive export) are refuted. The same operators judge recorded executions of the real ExportSnapshot/ExportLatestSnapshot and "
          "import (public and test-frequency entry points) into empty datastores (SnapshotTrace.tla): digest recomputed over the bytes, full projection of "
          "exporter and importer, every byte-offset truncation of small snapshots and every block-level corruption class."),
    note=("Trusted: TLC, the NDJSON recorder, the driver's own block framing reader and the abstract<->real table codec in harness/drivers/snapshot (no verdict "
          "in Go), MapDatastore. Bounded: model constants above; real stores are seeded samples of <= 12 (thorough 40, one of 1500) certificates over 3 "
          "participants. Not covered: I/O errors of the datastore or writer, imports into a non-empty datastore, inflated length prefixes (see notes), "
          "bit flips inside CBOR, signature validity (the import does not validate signatures)."),
    technique="TLA+ spec model-checked with TLC + trace validation of the real snapshot export/import against the spec",
    design_ref="DESIGN.md section 6 C17")

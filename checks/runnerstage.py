"""Runner stage of C15: WHICH instance a node works on and WHEN (host.go: Start, receiveCertificate, startInstanceAt,
computeNextInstanceStart, the event loop) - the instance for which C15's proposal and committee are derived.

design  : TLC checks spec/host/Runner.tla on MCRunner (one node + environment: certificates from other nodes with a
          latest-only subscription, clock/EC head, own messages and decisions, death and restart over the same WAL and
          store; invariants: instance monotone also across restarts, never behind finality, proposal only above
          finality, scheduled start promises, replay = that instance's WAL messages in order, duplicate certificate
          does not disturb, certificates/alarms before messages) and on MCNextStart (computeNextInstanceStart as a
          function over a grid: after-base bound, alignment postcondition, back-off closed form, monotonicity).
          Named deviations (Dev) must each be refuted.
binding : harness/drivers/runner runs the production gpbftRunner: (table) computeNextInstanceStart over manifests x
          certificate histories x EC heads x clocks; (histories) certificate arrivals, alarms, own messages and
          decisions, restarts, with the loop's calls made one at a time; (loop) the real Start and event loop incl.
          the priority probe.  spec/host/RunnerTrace.tla judges every line.
clauses : C15_InstanceFollowsFinality, C15_ProposalBaseIsFinalized (property text, first sentence) -> VIOLATION;
          Conf_* (start time formula, replay order/instance, alarm, priority, ...) -> spec drift (exit 2)."""
import os, json
from concurrent.futures import ThreadPoolExecutor
import vlib
from vlib import Inconclusive

SPECDIR = os.path.join(vlib.SPEC, "host")

# deviation of the reference -> (module, base cfg, invariants that may refute it)
MUTANTS_QUICK = [("skip_backwards", "MCRunner"), ("replay_next", "MCRunner"), ("no_priority", "MCRunner"),
                 ("start_ignores_initial", "MCRunner"), ("backoff_counts_initial", "MCNextStart"),
                 ("lookback_dropped", "MCNextStart"), ("align_plus_offset", "MCNextStart")]
MUTANTS_MORE = [("ge_to_gt", "MCRunner"), ("start_ignores_store", "MCRunner"), ("backoff_index", "MCNextStart"),
                ("initial_special_dropped", "MCNextStart")]


def _tlc(d, tag, module, cfg, timeout, workers):
    return vlib.tlc(SPECDIR, module, cfg, workdir=os.path.join(d, "tlc-" + tag), timeout=timeout, workers=workers)


def _stats(table, hist, loop):
    st = dict(table_groups=0, table_rows=0, rows_head_error=0, rows_clock_behind=0, rows_moved_to_now=0, rows_no_suffix=0,
              hist_histories=0, hist_events=0, certs=0, certs_ignored=0, certs_skipping=0, starts_with_replay=0, own_decisions=0,
              own_base_decisions=0, decisions_on_stored=0, crashes=0, begins=0, begin_errors=0, refused_broadcasts=0,
              loop_histories=0, loop_starts=0, loop_starts_from_store=0, loop_starts_initial=0, loop_steps=0,
              prio_cert_first=0, prio_alarm_first=0, prio_unknown=0, prio_msg_first=0)
    mf = None
    for e in table:
        if e["ev"] == "TReset":
            st["table_groups"] += 1
            mf, store = e["mf"], {c["inst"]: c for c in e["store"]}
        elif e["ev"] == "Row":
            st["table_rows"] += 1
            st["rows_head_error"] += 1 if e["head"]["err"] else 0
            if not e["head"]["err"]:
                st["rows_no_suffix"] += 0 if store[e["i"]]["suffix"] else 1
                if mf["align"] > 0 and e["now"] <= e["start"] < e["now"] + mf["align"]:
                    st["rows_moved_to_now"] += 1
                if e["start"] > e["now"]:
                    st["rows_clock_behind"] += 1
    prog, put_latest = 0, -1
    for e in hist:
        k = e["ev"]
        st["hist_events"] += 1
        if k == "HReset":
            st["hist_histories"] += 1
            put_latest = -1
        elif k == "Put":
            put_latest = e["latest"]
        elif k == "Boot":
            prog = 0
        elif k == "Cert":
            st["certs"] += 1
            if e["cert"]["inst"] + 1 <= prog:
                st["certs_ignored"] += 1
            elif e["cert"]["inst"] + 1 > prog + 1 and prog > 0:
                st["certs_skipping"] += 1
            if e["replay"]:
                st["starts_with_replay"] += 1
        elif k == "Crash":
            st["crashes"] += 1
        elif k == "Bcast" and not e["stored"]:
            st["refused_broadcasts"] += 1
        if k in ("Alarm", "Deliver") and e["dec"]["inst"] >= 0:
            st["own_decisions"] += 1
            st["own_base_decisions"] += 0 if e["dec"]["suffix"] else 1
            if put_latest >= e["dec"]["inst"]:        # the others' certificate for this instance was stored before
                st["decisions_on_stored"] += 1
        if k == "Alarm" and e["out"] and e["out"][0]["phase"] == 1:
            st["begins"] += 1
        if k == "Alarm" and e["err"]:
            st["begin_errors"] += 1
        if "o" in e and k != "Tick":
            prog = e["o"]["prog"]
    latest = -1
    for e in loop:
        k = e["ev"]
        if k == "HReset":
            st["loop_histories"] += 1
            latest = -1
        elif k == "Put":
            latest = e["latest"]
        elif k == "LStart":
            st["loop_starts"] += 1
            st["loop_starts_from_store" if latest >= 0 else "loop_starts_initial"] += 1
            if e["replay"]:
                st["starts_with_replay"] += 1
        elif k == "LStep":
            st["loop_steps"] += 1
            if e["certs"]:
                latest = e["certs"][-1]["inst"]
            f = e["first"]
            if e["kind"].startswith("prio"):
                st[{"cert": "prio_cert_first", "alarm": "prio_alarm_first", "msg": "prio_msg_first"}.get(f, "prio_unknown")] += 1
        if "o" in e and k in ("Alarm", "Deliver", "LStart", "LStep", "Cert"):
            latest = max(latest, e["o"]["latest"])
    return st


def runner_stage(ck):
    quick = ck.tier == "quick"
    d = os.path.join(ck.dir, "runner")
    os.makedirs(d, exist_ok=True)
    to = 900 if quick else 3000
    pool = ThreadPoolExecutor(max_workers=4)       # the real code: build, drivers, trace validation
    dpool = ThreadPoolExecutor(max_workers=4)      # design checks and their mutants (independent of the above)
    f_build = pool.submit(vlib.build_driver, "runner", d)
    designs = [("design-runner-a", "MCRunner", "MCRunner.cfg" if quick else "MCRunnerThorough.cfg", 2),
               ("design-runner-b", "MCRunner", "MCRunnerB.cfg", 1),
               ("design-nextstart", "MCNextStart", "MCNextStart.cfg" if quick else "MCNextStartThorough.cfg", 1)]
    futs = {tag: dpool.submit(_tlc, d, tag, mod, cfg, to, w) for tag, mod, cfg, w in designs}
    muts = MUTANTS_QUICK + ([] if quick else MUTANTS_MORE)
    for dev, mod in muts:
        futs["mutant-" + dev] = dpool.submit(_tlc, d, "mutant-" + dev, mod, "%s-%s.cfg" % (mod, dev), 600, 1)

    # ---- drivers (real code), then TLC on what they recorded
    try:
        binary = f_build.result()
    except BaseException:
        dpool.shutdown(wait=True, cancel_futures=True)
        raise
    seeds = [ck.seed] if quick else [ck.seed, ck.seed + 1000, ck.seed + 2000]
    all_stats = []

    def drive(test, trace, env, timeout):
        e = dict(VERIF_OUT=trace, GOLOG_LOG_LEVEL="error")
        e.update(env)
        rc, out = vlib.run_driver(binary, test, env=e, timeout=timeout)
        if rc != 0:
            raise Inconclusive("runner driver %s failed:\n%s" % (test, out[-3000:]))
        return trace

    def settle(fs):
        """wait for all; a recorded violation wins over drift elsewhere; else re-raise the first Inconclusive"""
        res, first = [], None
        for f in fs:
            try:
                res.append(f.result())
            except Inconclusive as e:
                first = first or e
                res.append(None)
        if first and not ck.violations:
            dpool.shutdown(wait=True, cancel_futures=True)
            raise first
        return res

    for s in seeds:
        tr = {k: os.path.join(d, "%s-%d.ndjson" % (k, s)) for k in ("table", "hist", "loop")}
        settle([pool.submit(drive, "TestRunnerTable", tr["table"], dict(VERIF_SEED=str(s), VERIF_GROUPS="120" if quick else "400"), 900),
                pool.submit(drive, "TestRunnerHistories", tr["hist"], dict(VERIF_SEED=str(s), VERIF_N="40" if quick else "150",
                                                                            VERIF_STEPS="70" if quick else "90"), 1500),
                pool.submit(drive, "TestRunnerLoop", tr["loop"], dict(VERIF_SEED=str(s), VERIF_N="16" if quick else "48"), 1500)])
        count = lambda kind: (lambda ev: sum(1 for e in ev if e["ev"] == kind))
        val = lambda k, kind: vlib.validate_trace(ck, SPECDIR, "RunnerTrace", "RunnerTrace.cfg", tr[k], "runner-%s-seed%d" % (k, s),
                                                  timeout=to, count_traces=count(kind))
        res = settle([pool.submit(val, "table", "TReset"), pool.submit(val, "hist", "HReset"), pool.submit(val, "loop", "HReset")])
        if ck.violations:
            dpool.shutdown(wait=True, cancel_futures=True)
            return
        st = _stats(res[0][1], res[1][1], res[2][1])
        all_stats.append(st)
        if s == seeds[0]:
            for e in res[0][1][:40]:
                if e["ev"] == "Row" and not e["head"]["err"]:
                    ck.sample(dict(runner_row=e))
                    break
            for e in res[1][1]:
                if e["ev"] == "Cert" and e["replay"]:
                    ck.sample(dict(runner_restart_replay={k: v for k, v in e.items() if k in ("cert", "replay", "o")}))
                    break

    # ---- design results
    res = {tag: f.result() for tag, f in futs.items()}
    pool.shutdown(wait=True)
    dpool.shutdown(wait=True)
    for tag, mod, cfg, w in designs:
        ck.require_tlc_ok(tag, res[tag])
        ck.add_tlc("runner:" + tag + ":" + cfg, res[tag],
                   note="Runner.tla: every interleaving within the bounds; invariants of the runner stage" if mod == "MCRunner" else
                        "computeNextInstanceStart over the parameter grid (inputs enumerated as states)")
    for dev, mod in muts:
        r = res["mutant-" + dev]
        if r.error and not r.violated:
            raise Inconclusive("runner stage: mutant %s: TLC error %s\n%s" % (dev, r.error, r.out[-1500:]))
        if not r.violated:
            raise Inconclusive("runner stage design check is vacuous: deviation %s of Runner.tla breaks no invariant" % dev)
        ck.cov["configs"].append(dict(config="runner:mutant:" + dev, violated=r.violated, distinct=r.distinct, wall_s=round(r.wall, 1),
                                      note="required counterexample found"))

    tot = {k: sum(st[k] for st in all_stats) for k in all_stats[0]}
    ck.cov["runner_stage"] = tot
    need = dict(table_rows=1000, decisions_on_stored=1, rows_head_error=5, rows_moved_to_now=100, rows_clock_behind=100, rows_no_suffix=200, certs=50,
                certs_ignored=5, certs_skipping=3, starts_with_replay=3, own_decisions=5, own_base_decisions=1, crashes=5, begins=20,
                loop_starts=10, loop_starts_from_store=3, loop_starts_initial=1, prio_cert_first=1, prio_alarm_first=1)
    for k, n in need.items():
        if tot[k] < n:
            raise Inconclusive("vacuous runner-stage run: %s = %d (< %d)" % (k, tot[k], n))
    ck.cov["distinct_nontrivial"] += tot["table_rows"] + tot["hist_histories"] + tot["loop_histories"]
    ck.cov["rule"] += ("; runner stage: rows = real computeNextInstanceStart results over (manifest x certificate history x certificate x EC head "
                       "x clock), histories = seeded runs of the production runner (direct calls of the loop's cases, and the real Start/loop), "
                       "every line judged by TLC against Runner.tla")
    ck.assumptions += ["runner stage: float64 products of computeNextInstanceStart are exact on the grid (multiplier and back-off table entries "
                       "multiples of 0.5, periods whole seconds); other parameters (e.g. the default table 1.3, 1.69, ...) are not judged",
                       "runner stage: ec.GetHead succeeds or fails cleanly; the certificate store serves what was stored; other nodes' "
                       "certificates agree with the node's own decisions (agreement, C01)",
                       "runner stage: histories make the event loop's calls one at a time (accessor TakeAlarm/TakeMessage/ReceiveCertificate); "
                       "the real Start/loop is exercised separately, observed at quiescence (all goroutines of Start parked in select)"]

"""C18 chain exchange: design check of spec/exchange/ChainExchange.tla (two LRU caches per instance with the
exact hashicorp/golang-lru recency semantics, validator verdicts, prune), mutant configurations that TLC must
refute, and trace validation of the real chainexchange.PubSubChainExchange against
spec/exchange/ChainExchangeTrace.tla (monitors C18_*) on scripted, random and model-generated histories."""
import os, re, json
from concurrent.futures import ThreadPoolExecutor
import vlib
from vlib import Inconclusive

LEVEL = "model_checking"
SPECDIR = os.path.join(vlib.SPEC, "exchange")


def _cfg(name, subs):
    c = open(os.path.join(SPECDIR, name)).read()
    for a, b in subs:
        if a not in c:
            raise Inconclusive("cfg template %s lacks %r" % (name, a))
        c = c.replace(a, b)
    return c.encode()


def _tlc(ck, tag, base, subs, timeout, workers=4, **kw):
    return vlib.tlc(SPECDIR, "MCChainExchange", "x.cfg", workdir=os.path.join(ck.dir, "tlc-" + tag), timeout=timeout,
                    workers=workers, extra_files={"x.cfg": _cfg(base, subs)}, **kw)


CACHE = "MCChainExchange.cfg"
# (tag, base cfg, substitutions, note)
DESIGN_QUICK = [
    ("cache22", CACHE, [], "1 instance, chains {01,02,013}, caps 2/2: all interleavings of lookup/own/admit/prune"),
    ("two11", CACHE, [("Insts = {0}", "Insts = {0, 1}"), ("ChainsC <- ChainsCache", "ChainsC <- ChainsOne"),
                      ("PruneAt = {0, 1}", "PruneAt = {0, 1, 2}")], "2 instances, one chain, prune at 0..2"),
    ("validator", "MCChainExchangeVal.cfg", [], "every message (shape x instance x chain x timestamp) x progress x clock"),
]
DESIGN_THOROUGH = DESIGN_QUICK + [
    ("cache32", CACHE, [("CapW = 2", "CapW = 3")], "caps 3/2"),
    ("cache23", CACHE, [("CapD = 2", "CapD = 3")], "caps 2/3"),
    ("mid22", CACHE, [("ChainsC <- ChainsCache", "ChainsC <- ChainsMid")], "1 instance, chains {01,02,03,014}, caps 2/2"),
    ("two22", CACHE, [("Insts = {0}", "Insts = {0, 1}"), ("ChainsC <- ChainsCache", "ChainsC <- ChainsTwo"),
                      ("PruneAt = {0, 1}", "PruneAt = {0, 1, 2}")], "2 instances, chains {01,02}, caps 2/2, prune at 0..2"),
    ("cache33", CACHE, [("CapW = 2", "CapW = 3"), ("CapD = 2", "CapD = 3")], "caps 3/3"),
    ("cache12", CACHE, [("CapW = 2", "CapW = 1")], "caps 1/2"),
]
# named deviations: TLC must find a counterexample (non-vacuity of the design check)
MUTANTS = [
    ("mut-peek", CACHE, [("DiscoveredPeeksWanted = TRUE", "DiscoveredPeeksWanted = FALSE")], "WantedRetained"),
    ("mut-promote", CACHE, [("LookupPromotes = TRUE", "LookupPromotes = FALSE")], "A_LookupFinds"),
    ("mut-whole", CACHE, [("StoreWholeChain = FALSE", "StoreWholeChain = TRUE")], "A_LookupKeyMatches"),
    ("mut-prune", CACHE, [("PruneInclusive = FALSE", "PruneInclusive = TRUE")], "A_PruneExact"),
    ("mut-past", "MCChainExchangeVal.cfg", [("AcceptPast = FALSE", "AcceptPast = TRUE")], "A_VerdictSound"),
]
STRICT = ("strict33", CACHE, [("StrictAdmit = FALSE", "StrictAdmit = TRUE"), ("CapW = 2", "CapW = 3"), ("CapD = 2", "CapD = 3")])


def design(ck):
    """All TLC runs on the design model (exhaustive configurations, mutants, simulation) run concurrently."""
    quick = ck.tier == "quick"
    runs = DESIGN_QUICK if quick else DESIGN_THOROUGH
    tmo = 900 if quick else 2400   # generous: the machine is shared; a timeout is exit 2, not a verdict
    muts = [m for m in MUTANTS if m[0] in ("mut-peek", "mut-whole", "mut-past")] if quick else MUTANTS
    jobs = [("design",) + r for r in runs] + [("mutant",) + m for m in muts] + [("strict",) + STRICT + ("",)]
    combos = [(2, 3), (3, 2), (1, 2)] if quick else [(2, 3), (3, 2), (1, 2), (2, 2), (3, 3), (1, 1), (4, 2)]
    num = 60 if quick else 250
    jobs += [("sim", "sim%d%d" % c, "MCChainExchangeSim.cfg", [("CapW = 2", "CapW = %d" % c[0]), ("CapD = 3", "CapD = %d" % c[1])], c) for c in combos]

    def go(j):
        if j[0] == "sim":
            return _tlc(ck, j[1], j[2], j[3], 300, workers=1, simulate="num=%d" % num, depth=31, seed=ck.seed * 100 + j[4][0] * 10 + j[4][1])
        return _tlc(ck, j[1], j[2], j[3], tmo, workers=3)
    with ThreadPoolExecutor(max_workers=6) as ex:
        res = list(ex.map(go, jobs))
    sims = [(j[4], r) for j, r in zip(jobs, res) if j[0] == "sim"]
    for j, r in zip(jobs, res):
        if j[0] == "sim":
            continue
        kind, tag = j[0], j[1]
        if kind == "design":
            ck.require_tlc_ok(tag, r)
            ck.add_tlc("design:" + tag, r, note=j[4])
        elif kind == "mutant":
            if r.error or r.violated != j[4]:
                raise Inconclusive("mutant configuration %s: expected TLC to refute %s, got violated=%s error=%s\n%s"
                                   % (tag, j[4], r.violated, r.error, r.out[-1500:]))
            ck.cov["configs"].append(dict(config="mutant:" + tag, refuted=r.violated, counterexample_states=len(r.trace),
                                          wall_s=round(r.wall, 1)))
        else:
            # the property's sentence without the "first arrival or room" precondition must be refuted on the
            # as-coded design (known finding F10; non-vacuity of C18_AdmitRetrievableStrict)
            if r.violated != "A_AdmitRetrievable":
                raise Inconclusive("StrictAdmit=TRUE was expected to be refuted by TLC (F10), got violated=%s error=%s" % (r.violated, r.error))
            ck.notes.append("AdmitRetrievable without the precondition (StrictAdmit=TRUE, caps 3/3) on the as-coded design: "
                            + ("refuted by TLC in %d states (a chain filed again can be evicted by its own prefixes)" % len(r.trace)
                               if r.violated == "A_AdmitRetrievable" else "not refuted (violated=%s error=%s)" % (r.violated, r.error)))
    ck.cov["exhaustive"] = True
    return sims


def gen_model_histories(ck, sims):
    """spec -> code: TLC -simulate on the full model (hist variable) prints operation sequences."""
    hs, seen = [], set()
    for (capw, capd), r in sims:
        if r.error or r.violated:
            raise Inconclusive("simulation of the design model failed: violated=%s error=%s\n%s" % (r.violated, r.error, r.out[-2000:]))
        for m in re.finditer(r'<<"VERIF_HIST", "(.*)">>', r.out):
            txt = m.group(1).replace('\\"', '"')
            if (capw, capd, txt) in seen:
                continue
            seen.add((capw, capd, txt))
            hs.append(dict(capW=capw, capD=capd, lookahead=1, maxAge=1, now=1, ops=json.loads(txt)))
        ck.cov["configs"].append(dict(config="simulate:caps%d/%d" % (capw, capd), histories=len(hs), wall_s=round(r.wall, 1)))
    if len(hs) < 20:
        raise Inconclusive("TLC simulation produced only %d histories" % len(hs))
    p = os.path.join(ck.dir, "model-histories.json")
    json.dump(hs, open(p, "w"))
    return p, len(hs)


def cov_of(r):
    m = re.search(r'<<"VERIF_COV", "(.*)">>', r.out)
    if not m:
        raise Inconclusive("trace spec printed no coverage report")
    return json.loads(m.group(1).replace('\\"', '"'))


STRICT_CLAUSE = "C18_AdmitRetrievableStrict"   # known finding F10 (signature ^C18_AdmitRetrievableStrict$)


def validate(ck, trace, name, need):
    count = lambda ev: sum(1 for e in ev if e["ev"] == "Reset")
    r, ev = vlib.validate_trace(ck, SPECDIR, "ChainExchangeTrace", "ChainExchangeTrace.cfg", trace, name, count_traces=count, timeout=1500)
    if ck.violations:
        return r, ev
    if not any(c.get("config") == "trace:" + name for c in ck.cov["configs"]):
        # validate_trace returns early when a property clause failed; here only the known strict clause did
        # (ck.violations is empty), so finish its job: conformance, completeness of the trace, accounting.
        bad = [(int(m.group(1)), c) for m in vlib._re_bad.finditer(r.out) for c in re.findall(r'"([^"]+)"', m.group(2))]
        other = [(l, c) for l, c in bad if c != STRICT_CLAUSE]
        if other:
            l, c = other[0]
            raise Inconclusive("spec drift: %s at line %d of trace %s: %s" % (c, l, name, json.dumps(ev[l - 1])[:400]))
        if r.error or r.distinct != len(ev) + 1:
            raise Inconclusive("trace %s not accepted (distinct=%d, events=%d, error=%s)\n%s" % (name, r.distinct, len(ev), r.error, r.out[-1500:]))
        ck.cov["traces_validated_against_impl"] += count(ev)
        ck.cov["evaluations"] += len(ev)
        ck.add_tlc("trace:" + name, r, exhaustive=False, note="%d events recorded from the real code, every state checked" % len(ev))
    cov = cov_of(r)
    ck.cov.setdefault("clause_antecedents", {})[name] = cov
    kinds = {}
    for e in ev:
        kinds[e["ev"]] = kinds.get(e["ev"], 0) + 1
    ck.cov.setdefault("event_counts", {})[name] = kinds
    for k in need:
        if not cov.get(k):
            raise Inconclusive("vacuous run %s: antecedent %s never held (%s)" % (name, k, cov))
    return r, ev


def run(ck):
    sims = design(ck)
    binary = vlib.build_driver("chainexchange", ck.dir)
    # spec -> code
    hp, nh = gen_model_histories(ck, sims)
    trace = os.path.join(ck.dir, "cx-model-%d.ndjson" % ck.seed)
    rc, out = vlib.run_driver(binary, "TestCXModel", env=dict(VERIF_OUT=trace, VERIF_IN=hp, VERIF_SEED=str(ck.seed)), timeout=600)
    if rc != 0:
        raise Inconclusive("driver (model histories) failed:\n" + out[-3000:])
    validate(ck, trace, "model%d" % ck.seed, ["hit", "stored", "fits", "retainedKeys", "evicted", "badMsg", "accepted"])
    if ck.violations:
        return
    # code -> spec: scripted boundary histories + seeded random histories
    seeds = [ck.seed] if ck.tier == "quick" else [ck.seed + 1000 * i for i in range(6)]
    n, steps = (40, 40) if ck.tier == "quick" else (250, 60)
    for s in seeds:
        trace = os.path.join(ck.dir, "cx-%d.ndjson" % s)
        rc, out = vlib.run_driver(binary, "TestCXHistories", env=dict(VERIF_OUT=trace, VERIF_SEED=str(s), VERIF_N=str(n), VERIF_STEPS=str(steps),
                                                                        VERIF_SCRIPTED="1" if s == seeds[0] else "0"), timeout=900)
        if rc != 0:
            raise Inconclusive("driver failed:\n" + out[-3000:])
        r, ev = validate(ck, trace, "seed%d" % s, ["hit", "stored", "fits", "retainedKeys", "retainedLookup", "evicted", "badMsg", "accepted", "pruneBoth"]
                         + (["strictOnly"] if s == seeds[0] else []))
        if ck.violations:
            return
        ck.sample(dict(trace="seed%d" % s, first_events=[{k: v for k, v in e.items() if k not in ("w", "d")} for e in ev[:10]]))
    ck.cov["distinct_nontrivial"] = ck.cov["traces_validated_against_impl"]
    ck.cov["rule"] = ("a history = one real PubSubChainExchange (capacities 1..4 and 128..130, lookahead 0..5) driven through lookups, own broadcasts, "
                      "validated deliveries, direct admits, floods > discovered capacity, prunes, progress and clock changes; %d of them generated by TLC "
                      "-simulate from the design model, the rest scripted boundary cases (ask/admit/flood orders, every prefix after admit, prune at n-1/n/n+1, "
                      "validator table) and seeded random; every event checked by TLC against all C18 clauses and exact LRU content" % nh)
    ck.assumptions += ["calls are fed sequentially: concurrent interleavings inside GetChainByInstance / cacheAs* are not explored",
                       "pubsub transport is bypassed: the validator and the cache functions are called as the subscription loop calls them",
                       "ECChain.Key() is injective on the generated chains (keys are mapped back through a registry of generated chains)"]


def replay(ck, obj):
    run(ck)


MANIFEST = dict(
    text=("TLC exhaustively checks the C18 clauses (lookup returns only the requested key and only admitted chains, held chains are found, every prefix is "
          "held right after an admit that fits, asked-then-admitted keys survive unsolicited floods while at most capW keys were wanted, validator verdicts, "
          "prune exact) on ChainExchange.tla - two LRU caches per instance with hashicorp/golang-lru recency semantics - for all interleavings over small chain "
          "alphabets and capacities 1..3, refutes five named deviations (incl. the repaired cacheAsDiscoveredChain defect), and then evaluates the same clauses "
          "with TLC in every state of recorded executions of the real PubSubChainExchange (scripted, random and TLC-generated histories incl. floods larger "
          "than the discovered capacity), the model advancing with the same actions and the LRU contents compared exactly (ChainExchangeTrace.tla)."),
    note=("Trusted: TLC, the NDJSON recorder and the read-only cache dump accessor in harness (no oracle in Go). Bounded: model constants above; real "
          "histories are sampled (seeded); calls are sequential (no concurrent interleavings), the libp2p transport is bypassed. AdmitRetrievable carries the "
          "precondition 'first arrival or no eviction needed' (the unconditional form is refuted by TLC on the as-coded design, see notes)."),
    technique="TLA+ spec model-checked with TLC + trace validation of the real chain exchange against the spec",
    design_ref="DESIGN.md section 6 C18")

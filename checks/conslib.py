"""Shared machinery of the consensus checks (C01, C02, C03, C06, C07): run the consensus driver, validate the
recorded traces with TLC in parallel (one TLC process per trace: the constants of the spec come from the trace's
Config line), classify clause failures."""
import os, re, json, glob, shutil, subprocess, concurrent.futures as cf
import vlib
from vlib import Inconclusive

SPECDIR = os.path.join(vlib.SPEC, "consensus")
_re_bad = re.compile(r'<<\s*"VERIF_BAD",\s*(\d+),\s*\{(.*?)\}\s*>>', re.S)  # TLC wraps long tuples over several lines


def run_driver(ck, binary, mode, n, seed, outdir, extra_env=None, test="TestConsensusRuns", timeout=1500):
    os.makedirs(outdir, exist_ok=True)
    env = dict(VERIF_OUTDIR=outdir, VERIF_SEED=str(seed), VERIF_N=str(n), VERIF_MODE=mode)
    env.update(extra_env or {})
    rc, out = vlib.run_driver(binary, test, env=env, timeout=timeout)
    if rc != 0:
        raise Inconclusive("consensus driver failed (mode %s):\n%s" % (mode, out[-3000:]))
    return sorted(glob.glob(os.path.join(outdir, "%s-%d-*.ndjson" % (mode, seed))))


def _tlc_one(args):
    module, cfg, trace, workdir, timeout = args
    r = vlib.tlc(SPECDIR, module, cfg, workdir=workdir, workers=1, timeout=timeout, extra_files={"trace.ndjson": trace}, heap="2g")
    bad = []
    for m in _re_bad.finditer(r.out):
        for c in re.findall(r'"([^"]+)"', m.group(2)):
            bad.append((int(m.group(1)), c))
    n = sum(1 for _ in open(trace))
    res = dict(trace=trace, bad=bad, distinct=r.distinct, generated=r.generated, lines=n, error=r.error, finished=r.finished, wall=r.wall,
               consumed=("VERIF_CONSUMED" in r.out), depth=r.depth,
               tail=r.out[-1500:] if (r.error or r.distinct != n) else "")
    shutil.rmtree(workdir, ignore_errors=True)
    return res


def validate(ck, module, cfg, traces, tag, timeout=600, par=None):
    """Returns list of per-trace results. TLC errors / unconsumed traces are reported in the result (caller decides)."""
    jobs = [(module, cfg, t, os.path.join(ck.dir, "tlc-%s-%d" % (tag, k)), timeout) for k, t in enumerate(traces)]
    with cf.ThreadPoolExecutor(max_workers=par or max(2, vlib.NCPU - 2)) as ex:
        return list(ex.map(_tlc_one, jobs))


def judge_obs(ck, results, prefixes, what="recorded execution"):
    """Layer A verdicts: clauses whose name starts with one of `prefixes` are this property's monitors."""
    total_lines = 0
    for r in results:
        ev = None
        if r["error"] and not r["bad"]:
            raise Inconclusive("observation spec failed on %s: %s\n%s" % (r["trace"], r["error"], r["tail"]))
        mine = [(l, c) for l, c in r["bad"] if any(c.startswith(p) for p in prefixes)]
        conf = [(l, c) for l, c in r["bad"] if c.startswith("Conf_")]
        if mine:
            ev = vlib.read_ndjson(r["trace"])
            seen = set()
            for l, c in mine:
                if c in seen:
                    continue
                seen.add(c)
                keep = os.path.join(ck.dir, "violations", os.path.basename(r["trace"]))
                os.makedirs(os.path.dirname(keep), exist_ok=True)
                shutil.copy(r["trace"], keep)
                name = "?"
                for e in reversed(ev[:l]):
                    if e.get("ev") == "Reset":
                        name = e.get("name", "?")
                        break
                ck.violation("%s@%s" % (c, name.split("-")[0]),
                             "clause %s fails on a %s of real participants (trace %s line %d: %s)" % (c, what, os.path.basename(r["trace"]), l, json.dumps(ev[l - 1])[:400]),
                             dict(trace=keep, line=l, clause=c, config=ev[0]))
            continue
        if conf:
            raise Inconclusive("harness/conformance clause %s at line %d of %s" % (conf[0][1], conf[0][0], r["trace"]))
        if r["distinct"] != r["lines"]:
            raise Inconclusive("observation spec did not consume %s (%d of %d lines)\n%s" % (r["trace"], r["distinct"], r["lines"], r["tail"]))
        total_lines += r["lines"]
        ck.cov["states"] += r["distinct"]
        ck.cov["transitions"] += r["generated"]
        ck.cov["traces_validated_against_impl"] += sum(1 for line in open(r["trace"]) if line.startswith('{"adversary"') or '"ev":"Reset"' in line)
    ck.cov["evaluations"] += total_lines
    return total_lines


def judge_conf(ck, results):
    """Layer B: every line of every trace must be explained by GPBFT.tla; otherwise spec drift (exit 2)."""
    skipped = [r for r in results if r["error"] == "timeout"]
    # A trace whose queue drain at an instance start has a large group of messages of equal round and phase makes the spec enumerate every
    # drain order (the code's order is Go map iteration order and is not observable); TLC may then not finish in the time allotted. Such a
    # trace is skipped for Layer B (Layer A has judged it), and the skip is recorded; more than one in ten skipped traces is not a pass.
    if len(skipped) > max(1, len(results) // 10):
        raise Inconclusive("conformance spec timed out on %d of %d traces (first: %s)" % (len(skipped), len(results), skipped[0]["trace"]))
    ck.cov.setdefault("conformance_traces_skipped_timeout", 0)
    ck.cov["conformance_traces_skipped_timeout"] += len(skipped)
    for r in results:
        if r["error"] == "timeout":
            continue
        if r["error"]:
            raise Inconclusive("conformance spec failed on %s: %s\n%s" % (r["trace"], r["error"], r["tail"]))
        if not r["consumed"]:
            ev = vlib.read_ndjson(r["trace"])
            at = max(1, r["depth"])          # depth of the search = longest explained prefix (+ the Config line)
            stuck = ev[at] if at < len(ev) else None
            raise Inconclusive("spec drift: GPBFT.tla cannot explain line %d of %s: %s" % (at + 1, r["trace"], json.dumps(stuck)[:700]))
        ck.cov["states"] += r["distinct"]
        ck.cov["transitions"] += r["generated"]
    ck.cov.setdefault("conformance_traces", 0)
    ck.cov["conformance_traces"] += len(results)


def stats(traces):
    """Antecedent counters for the vacuity report."""
    c = dict(events=0, runs=0, decisions=0, byz_deliveries=0, rounds_gt0=0, converge_prepares=0, commit_bottom=0, two_instance_runs=0,
             zero_power_runs=0, rejected=0)
    for t in traces:
        cfg = None
        for line in open(t):
            e = json.loads(line)
            if e["ev"] == "Config":
                cfg = e
                continue
            if e["ev"] == "Reset":
                c["runs"] += 1
                if cfg["insts"] > 1:
                    c["two_instance_runs"] += 1
                if 0 in cfg["power"]:
                    c["zero_power_runs"] += 1
                continue
            if e["ev"] in ("Start", "Receive", "Alarm"):
                c["events"] += 1
                if e["dec"]:
                    c["decisions"] += 1
                if e.get("byz"):
                    c["byz_deliveries"] += 1
                for o in e["out"]:
                    if o["r"] > 0:
                        c["rounds_gt0"] += 1
                    if o["ph"] == "PREPARE" and o["r"] > 0:
                        c["converge_prepares"] += 1
                    if o["ph"] == "COMMIT" and not o["v"]:
                        c["commit_bottom"] += 1
            if e["ev"] == "Rejected":
                c["rejected"] += 1
    return c


def run_layers(ck, plan, prefixes, conformance=True, seeds=None):
    """plan: list of (mode, n_runs). Generates traces with the real participants, validates Layer A (verdicts) and Layer B (drift)."""
    binary = vlib.build_driver("consensus", ck.dir)
    ck.binary = binary
    traces = []
    outdir = os.path.join(ck.dir, "traces")
    shutil.rmtree(outdir, ignore_errors=True)
    for seed in (seeds or [ck.seed]):
        for mode, n in plan:
            traces += run_driver(ck, binary, mode, n, seed, outdir)
    st = stats(traces)
    ck.cov.setdefault("antecedents", {})
    for k, v in st.items():
        ck.cov["antecedents"][k] = ck.cov["antecedents"].get(k, 0) + v
    resA = validate(ck, "GPBFTObs", "GPBFTObs.cfg", traces, "obs")
    judge_obs(ck, resA, prefixes)
    if conformance and not ck.violations:
        resB = validate(ck, "GPBFTTrace", "GPBFTTrace.cfg", traces, "conf", timeout=240 if ck.tier == "quick" else 900)
        judge_conf(ck, resB)
    if traces:
        ev = vlib.read_ndjson(traces[0])
        ck.sample(dict(trace=os.path.basename(traces[0]), config={k: ev[0][k] for k in ("n", "byz", "power", "insts")}, first_events=ev[1:6]))
    return traces, st


# ----------------------------------------------------------------------------- spec -> code: TLC-generated schedules

_re_hist = re.compile(r'<<\s*"VERIF_HIST",\s*"(.*?)"\s*>>', re.S)
_re_attack = re.compile(r'<<\s*"VERIF_ATTACK",\s*"(\w+)",\s*"(.*?)"\s*>>', re.S)

# model configurations of spec/consensus/MCGPBFT.tla and their concrete counterpart for the driver
MODELS = {
    "nest": dict(Chains="ChainsNest", Input="InputNest", powers=[1, 1, 1, 1], byz=[4], inputs=[[0, 1, 2], [0, 1], [0, 3], [0]]),
    "nest3": dict(Chains="ChainsNest", Input="InputNest3", powers=[1, 1, 1, 1], byz=[4], inputs=[[0, 1, 2], [0, 1, 2], [0, 1], [0]]),
    "forkx": dict(Chains="ChainsForkX", Input="InputFork", powers=[1, 1, 1, 1], byz=[4], inputs=[[0, 1], [0, 1], [0, 3], [0]]),
    "foreign": dict(Chains="ChainsForeign", Input="InputFork", powers=[1, 1, 1, 1], byz=[4], inputs=[[0, 1], [0, 1], [0, 3], [0]]),
    # three members, scaled total 65534 (not divisible by 3), the Byzantine member holds floor(total/3) < 1/3: the rounding boundary
    "bound3": dict(Chains="ChainsFork", Input="InputTwo", H="{1, 2}", B="{3}", Power="PowerBound3", Order="Order3", powers=[21845, 21845, 21844], byz=[3],
                   inputs=[[0, 1], [0, 3], [0]]),
    "uni": dict(Chains="ChainsNest", Input="InputUni", powers=[1, 1, 1, 1], byz=[4], inputs=[[0, 1, 2], [0, 1, 2], [0, 1, 2], [0]]),
    "fork": dict(Chains="ChainsFork", Input="InputFork", powers=[1, 1, 1, 1], byz=[4], inputs=[[0, 1], [0, 1], [0, 3], [0]]),
}


def _unescape(s):
    return json.loads('"' + s.replace("\n", "") + '"')


def mcg_cfg(model, maxround=2, rank="RankMix", depth=70, noop=False, invariants=(), properties=(), overrides=()):
    m = MODELS[model]
    lines = ["SPECIFICATION MSpec", "CONSTANTS", "  H = %s" % m.get("H", "{1, 2, 3}"), "  B = %s" % m.get("B", "{4}"), "  Power <- %s" % m.get("Power", "Power4"),
             "  Chains <- %s" % m["Chains"],
             "  MaxRound = %d" % maxround, "  Rank <- %s" % rank, "  Lookahead = 0", "  Order <- %s" % m.get("Order", "Order4"), "  Input <- %s" % m["Input"],
             "  Depth = %d" % depth, "  Noop = %s" % ("TRUE" if noop else "FALSE")]
    lines += ["  " + o for o in overrides]
    lines += ["INVARIANT " + i for i in invariants]
    lines += ["PROPERTY " + q for q in properties]
    lines.append("CHECK_DEADLOCK FALSE")
    return "\n".join(lines) + "\n"


DESIGN_INVS = ("MAgreement", "MValidity", "MOneVotePerSlot", "MEmitsValid", "MEvidenceBacked")


def tlc_simulate(ck, name, model, num, depth, seed, maxround=2, rank="RankMix", noop=False, workers=4, timeout=600, export=True,
                 overrides=(), invariants=DESIGN_INVS, properties=("MProgressMonotone",)):
    """Random walks of the per-message model; design-level invariants checked on every state; returns (TLCResult, [histories])."""
    invs = list(invariants) + (["Export"] if export else [])
    cfg = mcg_cfg(model, maxround, rank, depth, noop, invs, properties, overrides)
    r = vlib.tlc(SPECDIR, "MCGPBFT", "gen.cfg", workdir=os.path.join(ck.dir, "tlc-" + name), workers=workers, timeout=timeout,
                 simulate="num=%d" % max(1, num // workers), depth=depth + 1, seed=seed, extra_files={"gen.cfg": cfg.encode()})
    hists = [json.loads(_unescape(h)) for h in _re_hist.findall(r.out)]
    m = re.search(r"The number of states generated: (\d+)", r.out)
    if m:
        r.generated = r.distinct = int(m.group(1))
    return r, hists


def scripts_from(model, hists, prefix, cont=True, sync=False):
    m = MODELS[model]
    return [dict(name="%s%d" % (prefix, k), powers=m["powers"], byz=m["byz"], inputs=m["inputs"], lookahead=0, steps=h, sync=sync) for k, h in enumerate(hists)]


def run_scripts(ck, binary, scripts, tag, cont=True, seed=1):
    outdir = os.path.join(ck.dir, "traces-" + tag)
    shutil.rmtree(outdir, ignore_errors=True)
    os.makedirs(outdir, exist_ok=True)
    for s in scripts:
        s["continue"] = cont
    sf = os.path.join(outdir, "scripts.json")
    json.dump(scripts, open(sf, "w"))
    rc, out = vlib.run_driver(binary, "TestConsensusScripts", env=dict(VERIF_OUTDIR=outdir, VERIF_SCRIPTS=sf, VERIF_TAG=tag, VERIF_SEED=str(seed)), timeout=1200)
    if rc != 0:
        raise Inconclusive("script driver failed (%s):\n%s" % (tag, out[-3000:]))
    return sorted(glob.glob(os.path.join(outdir, "%s-%d-*.ndjson" % (tag, seed))))


def quorum_design(ck, cfgs, mutants, timeout=1500, workers=None):
    """Exhaustive design-level check on the quorum-view abstraction: every cfg in cfgs must hold on all reachable states,
    every cfg in mutants (a named weakening, or Byzantine power at the 1/3 bound) must be refuted by TLC (non-vacuity)."""
    for cfg in cfgs:
        r = vlib.tlc(SPECDIR, "MCGPBFTQuorum", cfg + ".cfg", workdir=os.path.join(ck.dir, "tlc-" + cfg), workers=workers or max(2, vlib.NCPU - 2), timeout=timeout)
        ck.require_tlc_ok(cfg, r, "design check (GPBFTQuorum)")
        ck.add_tlc("design:" + cfg, r, exhaustive=True, note="all schedules x all Byzantine strategies of the quorum-view abstraction within the cfg's bounds")
    for cfg in mutants:
        r = vlib.tlc(SPECDIR, "MCGPBFTQuorum", cfg + ".cfg", workdir=os.path.join(ck.dir, "tlc-" + cfg), workers=workers or max(2, vlib.NCPU - 2), timeout=timeout)
        if r.error or not r.violated:
            raise Inconclusive("mutant configuration %s was not refuted by TLC (invariant vacuous?): %s\n%s" % (cfg, r.error, r.out[-1500:]))
        ck.cov["configs"].append(dict(config="mutant:" + cfg, refuted_by=r.violated, counterexample_states=len(r.trace), distinct=r.distinct, wall_s=round(r.wall, 1)))


def simple_design(ck, module, cfgs, mutants, timeout=900, workers=4, exhaustive=True, note=""):
    for cfg in cfgs:
        r = vlib.tlc(SPECDIR, module, cfg + ".cfg", workdir=os.path.join(ck.dir, "tlc-" + cfg), workers=workers, timeout=timeout)
        ck.require_tlc_ok(cfg, r, "design check (%s)" % module)
        ck.add_tlc("design:" + cfg, r, exhaustive=exhaustive, note=note)
    for cfg in mutants:
        r = vlib.tlc(SPECDIR, module, cfg + ".cfg", workdir=os.path.join(ck.dir, "tlc-" + cfg), workers=workers, timeout=timeout)
        if r.error or not r.violated:
            raise Inconclusive("mutant configuration %s was not refuted by TLC (invariant vacuous?): %s\n%s" % (cfg, r.error, r.out[-1500:]))
        ck.cov["configs"].append(dict(config="mutant:" + cfg, refuted_by=r.violated, distinct=r.distinct, wall_s=round(r.wall, 1)))


def permsg_design(ck, name, model, walks, depth=70, maxround=2, seed=None, rank="RankMix", timeout=900):
    """Design-level check of the implementation-shaped per-message model by TLC simulation (random walks, every state checked);
    returns the exported histories (schedules) for replay on the real participants."""
    r, hists = tlc_simulate(ck, name, model, walks, depth, ck.seed if seed is None else seed, maxround=maxround, rank=rank, timeout=timeout,
                            workers=max(2, min(8, vlib.NCPU - 2)))
    if r.error or r.violated:
        raise Inconclusive("per-message model MCGPBFT (%s): %s %s -- design-level counterexample, to be reproduced on the code before it counts\n%s"
                           % (name, r.violated, r.error, r.out[-3000:]))
    ck.add_tlc("design:MCGPBFT-sim-" + name, r, exhaustive=False, note="%d random walks of depth <= %d, invariants %s checked on every state" % (walks, depth, ",".join(DESIGN_INVS)))
    seen, out = set(), []
    for h in hists:
        k = json.dumps(h, sort_keys=True)
        if k not in seen:
            seen.add(k)
            out.append(h)
    return out


def sync_cfg(model, maxround, prefix, k, invariants, overrides=(), rank="RankMix"):
    m = MODELS[model]
    lines = ["SPECIFICATION SSpec", "CONSTANTS", "  H = %s" % m.get("H", "{1, 2, 3}"), "  B = %s" % m.get("B", "{4}"), "  Power <- %s" % m.get("Power", "Power4"),
             "  Chains <- %s" % m["Chains"], "  MaxRound = %d" % maxround, "  Rank <- %s" % rank, "  Lookahead = 0", "  Order <- %s" % m.get("Order", "Order4"),
             "  Input <- %s" % m["Input"], "  Depth = 100000", "  Noop = FALSE", "  PrefixLen = %d" % prefix, "  K = %d" % k]
    lines += ["  " + o for o in overrides]
    lines += ["INVARIANT " + i for i in invariants]
    lines.append("CHECK_DEADLOCK TRUE")
    return "\n".join(lines) + "\n"


def sync_design(ck, name, model, walks, prefix, seed, k=2, maxround=5, overrides=(), expect_refuted=False, timeout=900, export=True, rank="RankMix", extra_invs=()):
    """C06 at design level: MCGPBFTSync.tla (arbitrary prefix, stabilisation, quiescence-gated timeouts) by TLC simulation; stuck states are deadlocks,
    the round bound is an invariant.  Returns the histories of walks that ended with everybody decided."""
    invs = ["RoundBound", "SafetyStill"] + list(extra_invs) + (["ExportSync"] if export else [])
    cfg = sync_cfg(model, maxround, prefix, k, invs, overrides, rank)
    workers = max(2, min(8, vlib.NCPU - 2))
    r = vlib.tlc(SPECDIR, "MCGPBFTSync", "gen.cfg", workdir=os.path.join(ck.dir, "tlc-" + name), workers=workers, timeout=timeout,
                 simulate="num=%d" % max(1, walks // workers), depth=260, seed=seed, extra_files={"gen.cfg": cfg.encode()}, deadlock=True)
    m = re.search(r"The number of states generated: (\d+)", r.out)
    if m:
        r.generated = r.distinct = int(m.group(1))
    if expect_refuted:
        if r.error or not r.violated:
            raise Inconclusive("liveness mutant %s was not refuted by TLC: %s\n%s" % (name, r.error, r.out[-1500:]))
        ck.cov["configs"].append(dict(config="mutant:" + name, refuted_by=r.violated, states=r.generated, wall_s=round(r.wall, 1)))
        return []
    if r.error or r.violated:
        raise Inconclusive("design model MCGPBFTSync (%s): %s %s -- design-level counterexample, to be reproduced on the code before it counts\n%s"
                           % (name, r.violated, r.error, r.out[-3000:]))
    ck.add_tlc("design:MCGPBFTSync-" + name, r, exhaustive=False,
               note="%d random walks: asynchronous prefix <= %d steps with Byzantine messages, then stabilisation; no stuck state, round bound +%d, safety" % (walks, prefix, k))
    seen, out = set(), []
    for h in _re_hist.findall(r.out):
        if h not in seen:
            seen.add(h)
            out.append(json.loads(_unescape(h)))
    return out


def refinement_check(ck, walks, model="fork", maxround=1, seed=1, timeout=2400):
    """GPBFTRefine.tla: every step of the per-message model is a step (or stutter) of the quorum-view abstraction under the forgetful mapping;
    checked by TLC as an action property on random walks; the deliberately false property RefinesBad must be reported (TLC does check it)."""
    m = MODELS[model]
    def cfg(prop):
        return ("SPECIFICATION RSpec\nCONSTANTS\n  H = {1, 2, 3}\n  B = {4}\n  Power <- Power4\n  Chains <- %s\n  MaxRound = %d\n  Rank <- RankId\n  Lookahead = 0\n"
                "  Order <- Order4\n  Input <- %s\n  Depth = 100000\n  Noop = FALSE\nPROPERTY %s\nCHECK_DEADLOCK FALSE\n" % (m["Chains"], maxround, m["Input"], prop)).encode()
    workers = max(2, min(8, vlib.NCPU - 2))
    r = vlib.tlc(SPECDIR, "GPBFTRefine", "gen.cfg", workdir=os.path.join(ck.dir, "tlc-refine-" + model), workers=workers, timeout=timeout,
                 simulate="num=%d" % max(1, walks // workers), depth=80, seed=seed, extra_files={"gen.cfg": cfg("Refines1")})
    mm = re.search(r"The number of states generated: (\d+)", r.out)
    if mm:
        r.generated = r.distinct = int(mm.group(1))
    if r.error or r.violated:
        raise Inconclusive("refinement GPBFT => GPBFTQuorum: %s %s (the abstraction does not cover a step of the per-message model: repair the model before any claim)\n%s"
                           % (r.violated, r.error, r.out[-2500:]))
    ck.add_tlc("design:refinement(GPBFT=>GPBFTQuorum)[%s]" % model, r, exhaustive=False, note="%d random walks, action property [][Abs!Next]_absvars" % walks)
    rb = vlib.tlc(SPECDIR, "GPBFTRefine", "gen.cfg", workdir=os.path.join(ck.dir, "tlc-refine-bad"), workers=2, timeout=300,
                  simulate="num=2", depth=30, seed=seed, extra_files={"gen.cfg": cfg("RefinesBad")})
    if not rb.violated:
        raise Inconclusive("the deliberately false refinement property was not reported: action properties are not being checked")


def replay_conformance(ck, binary, model, hists, prefixes, tag="rconf", conformance=True, sync=False):
    """R-conf: TLC-chosen schedules (behaviours of MCGPBFT.tla) executed on real participants, then judged like any other trace."""
    if not hists:
        raise Inconclusive("no schedule exported by TLC")
    traces = run_scripts(ck, binary, scripts_from(model, hists, tag, sync=sync), tag, cont=True, seed=ck.seed)
    st = stats(traces)
    resA = validate(ck, "GPBFTObs", "GPBFTObs.cfg", traces, tag + "-obs")
    judge_obs(ck, resA, prefixes, what="replay of a TLC-generated schedule")
    if conformance and not ck.violations:
        resB = validate(ck, "GPBFTTrace", "GPBFTTrace.cfg", traces, tag + "-conf")
        judge_conf(ck, resB)
    ck.cov.setdefault("replayed_tlc_schedules", 0)
    ck.cov["replayed_tlc_schedules"] += len(hists)
    ck.cov.setdefault("antecedents", {})
    for k, v in st.items():
        ck.cov["antecedents"]["rconf_" + k] = ck.cov["antecedents"].get("rconf_" + k, 0) + v
    return traces


def load_attacks():
    out = []
    for f in sorted(glob.glob(os.path.join(vlib.ROOT, "attacks", "*.json"))):
        out.append(json.load(open(f)))
    return out


FRESH_MUTANTS = [("strong-half", "fork", "Strong <- StrongHalf"), ("strong-floor", "bound3", "Strong <- StrongFloor"),
                 ("just-nopower", "forkx", "JustOKI <- JustNoPower"), ("decide-noj", "forkx", "JustShapeOK <- JustShapeDecideNoJ")]


def fresh_attacks(ck, seed):
    """Thorough tier: the mutant configurations are searched again with a fresh seed (the committed library is reproducible, and a mutant that no
    longer yields a counterexample means the design model changed: exit 2). Returns new attack scripts."""
    out = []
    for name, model, ov in FRESH_MUTANTS:
        r, _ = tlc_simulate(ck, "fresh-" + name, model, 6000, 60, seed, maxround=1, rank=["RankId", "RankRev", "RankMix"][seed % 3], overrides=[ov], export=False,
                            invariants=("AttackAgreement", "AttackValidity"), properties=(), workers=6, timeout=900)
        att = _re_attack.findall(r.out)
        if r.error or not att:
            raise Inconclusive("mutant %s (%s) yields no counterexample any more: %s" % (name, ov, r.error))
        m = MODELS[model]
        out.append(dict(name="fresh-%s-%d" % (name, seed), mutant=ov, model=model, violates=att[0][0], powers=m["powers"], byz=m["byz"], inputs=m["inputs"],
                        lookahead=0, steps=json.loads(_unescape(att[0][1]))))
        ck.cov["configs"].append(dict(config="mutant:MCGPBFT[%s]" % ov, refuted_by=att[0][0], schedule_steps=len(out[-1]["steps"]), states=r.generated, wall_s=round(r.wall, 1)))
    return out


def attack_replays(ck, binary, prefixes, extra=()):
    """R-attack: the committed library of TLC counterexamples of mutant configurations (attacks/*.json) replayed on real participants."""
    atts = load_attacks() + list(extra)
    if not atts:
        raise Inconclusive("attack library is empty")
    scripts = [dict(name=a["name"], powers=a["powers"], byz=a["byz"], inputs=a["inputs"], lookahead=a.get("lookahead", 0), steps=a["steps"]) for a in atts]
    traces = run_scripts(ck, binary, scripts, "attack", cont=True, seed=ck.seed)
    st = stats(traces)
    res = validate(ck, "GPBFTObs", "GPBFTObs.cfg", traces, "attack-obs")
    judge_obs(ck, res, prefixes, what="replay of a TLC-generated attack schedule")
    ck.cov["attack_schedules_replayed"] = len(atts)
    ck.cov["attack_mutants"] = sorted({a["mutant"] for a in atts})
    ck.cov.setdefault("antecedents", {})
    ck.cov["antecedents"]["attack_rejected_by_real_validator"] = st["rejected"]
    ck.cov["antecedents"]["attack_events"] = st["events"]
    if not ck.violations and st["rejected"] == 0:
        raise Inconclusive("attack replays: the real validator never had to refuse anything (library stale?)")
    return traces


def gst_stats(traces):
    g = dict(gst_runs=0, runs_round_gt0_at_gst=0, runs_with_byz_before_gst=0, max_rounds_after_gst=0)
    for t in traces:
        for line in open(t):
            if '"ev":"End"' not in line:
                continue
            e = json.loads(line)
            if not e.get("gst"):
                continue
            g["gst_runs"] += 1
            if any(p["gstround"] > 0 for p in e["parts"]):
                g["runs_round_gt0_at_gst"] += 1
            if e["byzdelivered"]:
                g["runs_with_byz_before_gst"] += 1
    return g

"""Shared machinery of the consensus checks (C01, C02, C03, C06, C07): run the consensus driver, validate the
recorded traces with TLC in parallel (one TLC process per trace: the constants of the spec come from the trace's
Config line), classify clause failures."""
import os, re, json, glob, shutil, subprocess, concurrent.futures as cf
import vlib
from vlib import Inconclusive

SPECDIR = os.path.join(vlib.SPEC, "consensus")
_re_bad = re.compile(r'<<\s*"VERIF_BAD",\s*(\d+),\s*\{(.*?)\}\s*>>', re.S)  # TLC wraps long tuples over several lines


def run_driver(ck, binary, mode, n, seed, outdir, extra_env=None, test="TestConsensusRuns", timeout=1500):
    os.makedirs(outdir, exist_ok=True)
    env = dict(VERIF_OUTDIR=outdir, VERIF_SEED=str(seed), VERIF_N=str(n), VERIF_MODE=mode)
    env.update(extra_env or {})
    rc, out = vlib.run_driver(binary, test, env=env, timeout=timeout)
    if rc != 0:
        raise Inconclusive("consensus driver failed (mode %s):\n%s" % (mode, out[-3000:]))
    return sorted(glob.glob(os.path.join(outdir, "%s-%d-*.ndjson" % (mode, seed))))


def _tlc_one(args):
    module, cfg, trace, workdir, timeout = args
    r = vlib.tlc(SPECDIR, module, cfg, workdir=workdir, workers=1, timeout=timeout, extra_files={"trace.ndjson": trace}, heap="2g")
    bad = []
    for m in _re_bad.finditer(r.out):
        for c in re.findall(r'"([^"]+)"', m.group(2)):
            bad.append((int(m.group(1)), c))
    n = sum(1 for _ in open(trace))
    res = dict(trace=trace, bad=bad, distinct=r.distinct, generated=r.generated, lines=n, error=r.error, finished=r.finished, wall=r.wall,
               tail=r.out[-1500:] if (r.error or r.distinct != n) else "")
    shutil.rmtree(workdir, ignore_errors=True)
    return res


def validate(ck, module, cfg, traces, tag, timeout=600, par=None):
    """Returns list of per-trace results. TLC errors / unconsumed traces are reported in the result (caller decides)."""
    jobs = [(module, cfg, t, os.path.join(ck.dir, "tlc-%s-%d" % (tag, k)), timeout) for k, t in enumerate(traces)]
    with cf.ThreadPoolExecutor(max_workers=par or max(2, vlib.NCPU - 2)) as ex:
        return list(ex.map(_tlc_one, jobs))


def judge_obs(ck, results, prefixes, what="recorded execution"):
    """Layer A verdicts: clauses whose name starts with one of `prefixes` are this property's monitors."""
    total_lines = 0
    for r in results:
        ev = None
        if r["error"] and not r["bad"]:
            raise Inconclusive("observation spec failed on %s: %s\n%s" % (r["trace"], r["error"], r["tail"]))
        mine = [(l, c) for l, c in r["bad"] if any(c.startswith(p) for p in prefixes)]
        conf = [(l, c) for l, c in r["bad"] if c.startswith("Conf_")]
        if mine:
            ev = vlib.read_ndjson(r["trace"])
            seen = set()
            for l, c in mine:
                if c in seen:
                    continue
                seen.add(c)
                keep = os.path.join(ck.dir, "violations", os.path.basename(r["trace"]))
                os.makedirs(os.path.dirname(keep), exist_ok=True)
                shutil.copy(r["trace"], keep)
                name = "?"
                for e in reversed(ev[:l]):
                    if e.get("ev") == "Reset":
                        name = e.get("name", "?")
                        break
                ck.violation("%s@%s" % (c, name.split("-")[0]),
                             "clause %s fails on a %s of real participants (trace %s line %d: %s)" % (c, what, os.path.basename(r["trace"]), l, json.dumps(ev[l - 1])[:400]),
                             dict(trace=keep, line=l, clause=c, config=ev[0]))
            continue
        if conf:
            raise Inconclusive("harness/conformance clause %s at line %d of %s" % (conf[0][1], conf[0][0], r["trace"]))
        if r["distinct"] != r["lines"]:
            raise Inconclusive("observation spec did not consume %s (%d of %d lines)\n%s" % (r["trace"], r["distinct"], r["lines"], r["tail"]))
        total_lines += r["lines"]
        ck.cov["states"] += r["distinct"]
        ck.cov["transitions"] += r["generated"]
        ck.cov["traces_validated_against_impl"] += sum(1 for line in open(r["trace"]) if line.startswith('{"adversary"') or '"ev":"Reset"' in line)
    ck.cov["evaluations"] += total_lines
    return total_lines


def judge_conf(ck, results):
    """Layer B: every line of every trace must be explained by GPBFT.tla; otherwise spec drift (exit 2)."""
    for r in results:
        if r["error"]:
            raise Inconclusive("conformance spec failed on %s: %s\n%s" % (r["trace"], r["error"], r["tail"]))
        if r["distinct"] != r["lines"]:
            ev = vlib.read_ndjson(r["trace"])
            stuck = ev[r["distinct"]] if r["distinct"] < len(ev) else None
            raise Inconclusive("spec drift: GPBFT.tla cannot explain line %d of %s: %s" % (r["distinct"] + 1, r["trace"], json.dumps(stuck)[:700]))
        ck.cov["states"] += r["distinct"]
        ck.cov["transitions"] += r["generated"]
    ck.cov.setdefault("conformance_traces", 0)
    ck.cov["conformance_traces"] += len(results)


def stats(traces):
    """Antecedent counters for the vacuity report."""
    c = dict(events=0, runs=0, decisions=0, byz_deliveries=0, rounds_gt0=0, converge_prepares=0, commit_bottom=0, two_instance_runs=0,
             zero_power_runs=0, rejected=0)
    for t in traces:
        cfg = None
        for line in open(t):
            e = json.loads(line)
            if e["ev"] == "Config":
                cfg = e
                continue
            if e["ev"] == "Reset":
                c["runs"] += 1
                if cfg["insts"] > 1:
                    c["two_instance_runs"] += 1
                if 0 in cfg["power"]:
                    c["zero_power_runs"] += 1
                continue
            if e["ev"] in ("Start", "Receive", "Alarm"):
                c["events"] += 1
                if e["dec"]:
                    c["decisions"] += 1
                if e.get("byz"):
                    c["byz_deliveries"] += 1
                for o in e["out"]:
                    if o["r"] > 0:
                        c["rounds_gt0"] += 1
                    if o["ph"] == "PREPARE" and o["r"] > 0:
                        c["converge_prepares"] += 1
                    if o["ph"] == "COMMIT" and not o["v"]:
                        c["commit_bottom"] += 1
            if e["ev"] == "Rejected":
                c["rejected"] += 1
    return c


def run_layers(ck, plan, prefixes, conformance=True, seeds=None):
    """plan: list of (mode, n_runs). Generates traces with the real participants, validates Layer A (verdicts) and Layer B (drift)."""
    binary = vlib.build_driver("consensus", ck.dir)
    traces = []
    outdir = os.path.join(ck.dir, "traces")
    shutil.rmtree(outdir, ignore_errors=True)
    for seed in (seeds or [ck.seed]):
        for mode, n in plan:
            traces += run_driver(ck, binary, mode, n, seed, outdir)
    st = stats(traces)
    ck.cov.setdefault("antecedents", {})
    for k, v in st.items():
        ck.cov["antecedents"][k] = ck.cov["antecedents"].get(k, 0) + v
    resA = validate(ck, "GPBFTObs", "GPBFTObs.cfg", traces, "obs")
    judge_obs(ck, resA, prefixes)
    if conformance and not ck.violations:
        resB = validate(ck, "GPBFTTrace", "GPBFTTrace.cfg", traces, "conf")
        judge_conf(ck, resB)
    if traces:
        ev = vlib.read_ndjson(traces[0])
        ck.sample(dict(trace=os.path.basename(traces[0]), config={k: ev[0][k] for k in ("n", "byz", "power", "insts")}, first_events=ev[1:6]))
    return traces, st


def design_check(ck, pid):
    """Design-level TLC checks of the consensus specs for property pid (filled in per property below)."""
    return


def attack_replays(ck, pid):
    """Replay of TLC-generated attack schedules on real participants (filled in below when the library exists)."""
    return


def gst_stats(traces):
    g = dict(gst_runs=0, runs_round_gt0_at_gst=0, runs_with_byz_before_gst=0, max_rounds_after_gst=0)
    for t in traces:
        for line in open(t):
            if '"ev":"End"' not in line:
                continue
            e = json.loads(line)
            if not e.get("gst"):
                continue
            g["gst_runs"] += 1
            if any(p["gstround"] > 0 for p in e["parts"]):
                g["runs_round_gt0_at_gst"] += 1
            if e["byzdelivered"]:
                g["runs_with_byz_before_gst"] += 1
    return g

"""C08 quorum arithmetic / power scaling.
   proof   : TLAPS (tlapm) proves the lemmas of spec/quorum/Quorum.tla for all naturals
   design  : TLC re-checks them exhaustively for whole <= MaxW (MCQuorum) and the scaling facts for all small
             tables (MCPowerScale, incl. the limb arithmetic used for big-integer rows); mutant cfgs must be refuted
   binding : harness/drivers/quorum evaluates the REAL predicates on all pairs 0 <= part <= whole <= 65535 (compressed
             to threshold+count per whole), big int64 operands, big-integer power tables, and the three users of the
             threshold (certs, message validator, tally); TLC checks every recorded row against the spec operators
             (spec/quorum/QuorumTrace.tla, clauses C08_* / Conf_*)."""
import os, re, json, subprocess, shutil, time
from concurrent.futures import ThreadPoolExecutor
import vlib
from vlib import Inconclusive

LEVEL = "model_checking"
SPECDIR = os.path.join(vlib.SPEC, "quorum")
TLAPS_LIB = "/opt/veriftools/tlapm/lib/tlapm/stdlib/TLAPS.tla"
EXTRA = {"TLAPS.tla": TLAPS_LIB}


def proof(ck):
    """tlapm on Quorum.tla (fresh fingerprints), bounded by a timeout."""
    d = os.path.join(ck.dir, "tlaps")
    shutil.rmtree(d, ignore_errors=True)
    os.makedirs(d)
    shutil.copy(os.path.join(SPECDIR, "Quorum.tla"), d)
    t0 = time.time()
    out = ""
    m = None
    # SMT/Zenon/Isabelle time limits are wall-clock: on a loaded machine stretch them and retry once
    for stretch in ("4", "25"):
        try:
            r = subprocess.run(["tlapm", "--cleanfp", "--stretch", stretch, "Quorum.tla"], cwd=d, capture_output=True, text=True, timeout=900)
        except FileNotFoundError:
            raise Inconclusive("tlapm not found")
        except subprocess.TimeoutExpired:
            subprocess.run(["pkill", "-f", d], capture_output=True)
            raise Inconclusive("tlapm timed out")
        out = r.stdout + r.stderr
        with open(os.path.join(d, "tlapm.out"), "w") as fh:
            fh.write(out)
        m = re.search(r"All (\d+) obligations? proved", out)
        if m:
            break
    if not m:
        f = re.search(r"(\d+)/(\d+) obligations failed", out)
        raise Inconclusive("TLAPS proof of Quorum.tla not discharged (%s)\n%s" % (f.group(0) if f else "no summary", out[-1500:]))
    n = int(m.group(1))
    ck.cov["obligations"] = n
    ck.cov["discharged"] = n
    ck.cov["tlapm_wall_s"] = round(time.time() - t0, 1)
    ck.cov["theorems"] = len(re.findall(r"^THEOREM", open(os.path.join(SPECDIR, "Quorum.tla")).read(), re.M))
    vlib.log("[tlapm] %d obligations proved in %.1fs" % (n, time.time() - t0))


def design_one(ck, module, cfg, expect_violation=None, timeout=600):
    r = vlib.tlc(SPECDIR, module, cfg, workdir=os.path.join(ck.dir, "tlc-" + cfg.replace(".cfg", "")), timeout=timeout,
                 extra_files=EXTRA, workers=8)
    if expect_violation:
        if r.violated != expect_violation:
            raise Inconclusive("non-vacuity: mutant config %s was not refuted (violated=%s error=%s)" % (cfg, r.violated, r.error))
        ck.cov["configs"].append(dict(config="mutant:" + cfg, refuted=True, wall_s=round(r.wall, 1), exhaustive=False,
                                      note="named deviation, TLC must find a counterexample"))
        return r
    ck.require_tlc_ok(cfg, r)
    return r


def design(ck, pool):
    th = ck.tier != "quick"
    jobs = [("MCQuorum", "MCQuorumthorough.cfg" if th else "MCQuorum.cfg", None,
             "all lemmas for every whole <= MaxW (all parts / pairs), tallies for whole <= MaxW3"),
            ("MCQuorum", "MCQuorumMut.cfg", "Lemmas", ""),
            ("MCPowerScale", "MCPowerScalethorough.cfg" if th else "MCPowerScale.cfg", None,
             "all tables of <= N members over the power carrier: order, bound, sum, limb arithmetic = native arithmetic"),
            ("MCPowerScale", "MCPowerScaleMut.cfg", "FactsInv", "")]
    futs = [(j, pool.submit(design_one, ck, j[0], j[1], j[2], 3000 if th else 1200)) for j in jobs]
    return futs


def split_rows(ck, path, seed, per_chunk):
    """Chunks of the row table (one TLC instance each, run concurrently).  Returns list of (name, file, kinds)."""
    chunks, cur, n = [], None, 0
    kinds = {}
    with open(path) as fh:
        for line in fh:
            if cur is None or n >= per_chunk:
                if cur:
                    cur.close()
                name = "rows-s%d-%02d" % (seed, len(chunks))
                p = os.path.join(ck.dir, name + ".ndjson")
                cur = open(p, "w")
                chunks.append((name, p))
                n = 0
            cur.write(line)
            n += 1
            k = line[line.index('"k":"') + 5:]
            k = k[:k.index('"')]
            kinds[k] = kinds.get(k, 0) + 1
    if cur:
        cur.close()
    return chunks, kinds


def run(ck):
    th = ck.tier != "quick"
    pool = ThreadPoolExecutor(max_workers=6)
    dfuts = design(ck, pool)
    pfut = pool.submit(proof, ck)
    binary = vlib.build_driver("quorum", ck.dir)
    seeds = [ck.seed] if not th else [ck.seed, ck.seed + 1]
    allkinds = {}
    vfuts = []
    for i, s in enumerate(seeds):
        rows = os.path.join(ck.dir, "rows-%d.ndjson" % s)
        env = dict(VERIF_OUT=rows, VERIF_SEED=str(s))
        if not th:
            env.update(VERIF_CRSTRIDE="4", VERIF_W3="30", VERIF_NCR="3000", VERIF_NBIG="2000", VERIF_NSCALE="600", VERIF_NUSE="100")
        else:
            env.update(VERIF_CRSTRIDE="1", VERIF_W3="60", VERIF_NCR="20000", VERIF_NBIG="20000", VERIF_NSCALE="6000", VERIF_NUSE="700")
            if i > 0:     # the exhaustive part does not depend on the seed: only the sampled rows are repeated
                env.update(VERIF_MAXW="3000", VERIF_W3="10")
        rc, out = vlib.run_driver(binary, "TestQuorumRows", env=env, timeout=1500)
        if rc != 0:
            raise Inconclusive("driver failed:\n" + out[-3000:])
        chunks, kinds = split_rows(ck, rows, s, 9000 if not th else 12000)
        for k, v in kinds.items():
            allkinds[k] = allkinds.get(k, 0) + v
        for name, p in chunks:
            vfuts.append(pool.submit(vlib.validate_trace, ck, SPECDIR, "QuorumTrace", "QuorumTrace.cfg", p, name,
                                     timeout=1500, extra_files=EXTRA))
        if i == 0:
            ev = vlib.read_ndjson(rows)
            evals = [e for e in ev if e["k"] == "end"]
            ck.sample(dict(kind="thr", rows=[r for r in ev[:10] if r["k"] == "thr"][3:6]))
            for kind in ("cr", "big", "use", "tally"):
                rs = [r for r in ev if r["k"] == kind]
                if rs:
                    ck.sample(dict(kind=kind, row=rs[len(rs) // 2]))
            ck.cov["real_evaluations_of_predicates"] = evals[0]["evaluations"] if evals else 0
            uses = [e for e in ev if e["k"] == "use"]
            for site in ("certs", "validator"):
                oks = {e["ok"] for e in uses if e["site"] == site}
                if oks != {True, False}:
                    raise Inconclusive("vacuous: site %s not exercised on both sides of the threshold (%s)" % (site, oks))
            tl = [e for e in ev if e["k"] == "tally"]
            if not any(e["strongFor"] for e in tl) or not any(not e["strongFor"] for e in tl) or \
               not any(e["fromWeak"] for e in tl) or not any(not e["fromWeak"] for e in tl):
                raise Inconclusive("vacuous: tally rows do not straddle the strong / weak thresholds")
    errs = []
    for f in vfuts:
        try:
            f.result()
        except Inconclusive as e:
            errs.append(e)
    for j, f in dfuts:
        r = f.result()
        if not j[2]:
            ck.add_tlc("design:" + j[1], r, note=j[3])
    pfut.result()
    pool.shutdown()
    if errs and not ck.violations:
        raise errs[0]
    need = dict(thr=65536, cr=1000, big=500, scale=500, use=100, tally=100)
    for k, n in need.items():
        if allkinds.get(k, 0) < n:
            raise Inconclusive("vacuous driver run: %d rows of kind %s (< %d)" % (allkinds.get(k, 0), k, n))
    ck.cov["row_counts"] = allkinds
    ck.cov["exhaustive"] = True
    ck.cov["traces_validated_against_impl"] = len(vfuts)
    ck.cov["distinct_nontrivial"] = sum(v for k, v in allkinds.items() if k != "end")
    ck.cov["rule"] = ("rows recorded from the real code and checked one by one by TLC: thr = one row per whole in [0,65535] summarising "
                      "IsStrongQuorum/hasWeakQuorum on every part in [0,whole] (least true part + number of true parts; equal to the spec "
                      "predicate on the whole range iff threshold and count match) and CouldReachStrongQuorumFor on two tally families "
                      "(quick: every 4th whole above 2000, thorough: all); cr = single tallies (all support<=senders<=whole for small wholes "
                      "+ boundary-biased random); big = int64 operands up to 2^62; scale = Scaled()/PowerTable.Add on big-integer tables "
                      "(1..2^200, equal/dust/exact-65535 shapes) with exact floor check in limb arithmetic; use/tally = certs, message "
                      "validator and the real quorumState at part = 2/3*whole-2..+3 and 1/3*whole-1..+2")
    ck.assumptions += ["TLC integers are 32 bit: operands above 2^31 are logged as base-2^12 limbs by the recorder and compared limb-wise (BigNat.tla, "
                       "checked against native arithmetic in MCPowerScale)",
                       "IsStrongQuorum is only sampled (not exhaustive) above whole = 65535; 2*whole overflows int64 for whole >= 2^62, which no scaled total reaches"]


MANIFEST = dict(
    text=("TLAPS proves for all naturals that Strong(a,w) <=> 3a >= 2w, that two strong quorums overlap in >= w/3, that a weak quorum exceeds w/3 "
          "and blocks any disjoint strong quorum, monotonicity, and that a tally reported as unable to reach a strong quorum cannot reach one "
          "(with and without the 1/3 adversary slack) for the operators transcribed from gpbft.go; TLC re-checks all of it exhaustively for "
          "whole <= 200 (600 thorough) and the scaling facts (order, <= 65535, sum <= 65535) for all tables of <= 3 (4) members over a power carrier. "
          "The real IsStrongQuorum / hasWeakQuorum / CouldReachStrongQuorumFor are then evaluated on all 2^31 pairs part <= whole <= 65535, the real "
          "Scaled()/PowerTable.Add on big-integer tables, and certs / validator / tally at the threshold boundary; TLC checks each recorded row "
          "against the spec operators."),
    note=("Trusted: TLC, tlapm+SMT backends, the recorder in harness/drivers/quorum (counts and logs, no oracle), limb encoding of big integers. "
          "Bounded: int64 operands above 65535 and big-integer tables are sampled (seeded); CouldReach threshold rows cover every 4th whole in the quick tier."),
    technique="TLAPS proof + TLC exhaustive check of the transcribed functions + TLC validation of tables recorded from the real functions",
    design_ref="DESIGN.md section 6 C08")

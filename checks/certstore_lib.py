"""Shared by checks/C09.py and checks/C10.py (certificate store): design check of spec/certstore/CertStore.tla,
driver runs of harness/drivers/certstore, trace validation, measured coverage numbers."""
import os, json, threading
import vlib
from vlib import Inconclusive

SPECDIR = os.path.join(vlib.SPEC, "certstore")


def design(ck, cfg, mutants, timeout, note):
    """Exhaustive TLC run of MCCertStore with `cfg`; every (mutant cfg -> invariant) must be refuted (non-vacuity).
    The runs are started together (they are independent JVMs)."""
    res = {}

    def one(name, c, to):
        res[name] = vlib.tlc(SPECDIR, "MCCertStore", c, workdir=os.path.join(ck.dir, "tlc-" + name), timeout=to,
                             workers=None if name == "design" else 2)

    ths = [threading.Thread(target=one, args=("design", cfg, timeout))]
    for mcfg in mutants:
        ths.append(threading.Thread(target=one, args=(mcfg, mcfg, 600)))
    for t in ths:
        t.start()
    for t in ths:
        t.join()
    r = res["design"]
    ck.require_tlc_ok(cfg, r)
    ck.add_tlc("design:" + cfg, r, note=note)
    ck.cov["exhaustive"] = True
    for mcfg, inv in mutants.items():
        m = res[mcfg]
        if m.error or m.violated != inv:
            raise Inconclusive("non-vacuity: mutant configuration %s should violate %s, TLC says violated=%s error=%s\n%s"
                               % (mcfg, inv, m.violated, m.error, m.out[-1500:]))
        ck.cov["configs"].append(dict(config="mutant:" + mcfg, refuted_invariant=inv, counterexample_states=len(m.trace),
                                      wall_s=round(m.wall, 1), note="named deviation of the spec; TLC must (and does) find a counterexample"))
    return r


def drive(ck, binary, test, name, env, timeout=1500):
    trace = os.path.join(ck.dir, "%s.ndjson" % name)
    e = dict(VERIF_OUT=trace)
    e.update({k: str(v) for k, v in env.items()})
    rc, out = vlib.run_driver(binary, test, env=e, timeout=timeout)
    if "DATA RACE" in out:
        return trace, out
    if rc != 0:
        raise Inconclusive("driver %s failed (rc=%d):\n%s" % (test, rc, out[-3000:]))
    return trace, out


def count_histories(ev):
    return sum(1 for e in ev if e["ev"] in ("Reset", "Fork"))


def validate(ck, module, trace, name, timeout=1500):
    r, ev = vlib.validate_trace(ck, SPECDIR, module, module + ".cfg", trace, name, count_traces=count_histories, timeout=timeout)
    return ev


def stats(ck, ev, name):
    """Measured facts about a recorded trace (event kinds, verdict classes, checkpoint crossings, crash cuts)."""
    kinds, verdicts = {}, {}
    freq, cross_small, cross_real, putok = 1440, 0, 0, 0
    cuts = {}
    for e in ev:
        k = e["ev"]
        kinds[k] = kinds.get(k, 0) + 1
        if k in ("Open", "RetryOpen"):
            freq = 1440
            key = "%s:%s:%s" % (k, e["variant"], e["err"] or "ok")
            verdicts[key] = verdicts.get(key, 0) + 1
        elif k == "SetFreq":
            freq = e["f"]
        elif k in ("Put", "RetryPut"):
            key = "%s:%s" % (k, "blocked" if e["blocked"] else (e["err"] or "ok"))
            verdicts[key] = verdicts.get(key, 0) + 1
            if e["err"] == "" and not e["blocked"]:
                putok += 1
                if (e["inst"] + 1) % freq == 0:
                    if freq == 1440:
                        cross_real += 1
                    else:
                        cross_small += 1
        elif k in ("CrashPut", "CrashCreate", "CrashWipe", "CrashResume"):
            key = "%s:k=%d" % (k, len(e["writes"]))
            cuts[key] = cuts.get(key, 0) + 1
    ck.cov.setdefault("event_counts", {})[name] = kinds
    ck.cov.setdefault("verdict_counts", {})[name] = verdicts
    if cuts:
        ck.cov.setdefault("crash_cuts", {})[name] = cuts
    ck.cov.setdefault("checkpoint_crossings", {})[name] = dict(lowered_frequency=cross_small, production_1440=cross_real)
    return kinds, verdicts, cuts, cross_small, cross_real


def need(cond, what):
    if not cond:
        raise Inconclusive("vacuous driver run: " + what)

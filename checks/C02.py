"""C02 validity: decisions extend the instance base and stem from an honest input; uniform input is decided under synchrony."""
import vlib, conslib
from vlib import Inconclusive
LEVEL = "model_checking"


def run(ck):
    quick = ck.tier == "quick"
    if quick:
        conslib.quorum_design(ck, ["MCQ_c02_r0", "MCQ_c02x_r0"], ["MCQ_atbound_r0"])
    else:
        # c02x: a value with the right base that nobody proposes is available to the adversary; the mutant that drops the PREPARE-quorum
        # requirement of the CONVERGE filter must let it be decided (Validity refuted)
        conslib.quorum_design(ck, ["MCQ_c02_r0", "MCQ_c02x_r0", "MCQ_c02", "MCQ_c02x"], ["MCQ_atbound", "MCQ_mutConvNoPrepare"], timeout=2400)
    hists = conslib.permsg_design(ck, "c02", "nest", 120 if quick else 3000, maxround=2)
    # second sentence at design level: common input, synchronous from the first step (PrefixLen = 0), faulty member silent, quiescence-gated
    # timeouts: no stuck state, nobody leaves round 0 (K = 0), and only the common input is ever decided; the walks are replayed below
    uni = conslib.sync_design(ck, "uniform", "uni", 60 if quick else 1500, 0, ck.seed, k=0, maxround=2, extra_invs=("UniformDecides",))
    plan = [("uniform", 16), ("random", 24)] if quick else [("uniform", 150), ("random", 300), ("gst", 40)]
    seeds = [ck.seed] if quick else [ck.seed, ck.seed + 1000]
    conslib.run_layers(ck, plan, ["C02_"], seeds=seeds, conformance=not quick)
    if not ck.violations:
        conslib.replay_conformance(ck, ck.binary, "nest", hists[: (60 if quick else 1500)], ["C02_"], conformance=not quick)
    if not ck.violations:
        conslib.replay_conformance(ck, ck.binary, "uni", uni[: (30 if quick else 600)], ["C02_"], tag="runi", conformance=not quick, sync=True)
    if not ck.violations:
        conslib.attack_replays(ck, ck.binary, ["C02_"], extra=([] if quick else conslib.fresh_attacks(ck, ck.seed + 100)))
    a = ck.cov["antecedents"]
    if not ck.violations and (a.get("decisions", 0) < 20 or not a.get("byz_deliveries")):
        raise Inconclusive("vacuous run: %s" % a)
    ck.cov["distinct_nontrivial"] = a["runs"] + ck.cov.get("replayed_tlc_schedules", 0) + ck.cov.get("attack_schedules_replayed", 0)
    ck.cov["rule"] = ("design: all reachable states of GPBFTQuorum.tla (nested and forked inputs) + random walks of MCGPBFT.tla; code: a case = one run of real participants: 'uniform' = same input "
                      "everywhere, no faulty member, delays below the synchrony bound (decision must equal the input); 'random' = forked/nested inputs with Byzantine members < 1/3 proposing "
                      "arbitrary known chains; replays of TLC-chosen schedules and of TLC attack counterexamples (foreign base, never-proposed value, unjustified DECIDE); clauses NonEmpty, Base, "
                      "HonestPrefix, UniformDecidesInput evaluated by TLC")
    ck.assumptions += ["sim/signing.FakeBackend stands for BLS (signatures unforgeable)", "the driver's scheduler and recorder (no oracle in Go)"]


MANIFEST = dict(
    text=("Validity (non-empty, own base, prefix of an honest input) is an invariant model-checked by TLC exhaustively on the quorum-view abstraction GPBFTQuorum.tla (all schedules x all "
          "Byzantine strategies, 3 honest + 1 Byzantine, nested and forked inputs; quick: round 0, thorough: rounds 0-1) and by simulation on the per-message model MCGPBFT.tla; the same "
          "clauses plus 'uniform input is decided under synchrony without faulty senders' are evaluated by TLC on recorded runs of real participants, on replays of TLC-chosen schedules, "
          "and on replays of TLC counterexamples of mutant specs (foreign base admitted, never-proposed value justified by an unchecked justification, unjustified DECIDE)."),
    note="Trusted: TLC, driver, FakeBackend. Exhaustive within the abstraction's bounds (3H+1B, rounds 0-1); real runs are sampled.",
    technique="TLC model checking of GPBFTQuorum.tla/MCGPBFT.tla + replay of TLC-generated schedules and attack counterexamples on real participants + TLA+ trace monitors",
    design_ref="DESIGN.md section 5 and section 6 C02")

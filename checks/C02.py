"""C02 validity: decisions extend the instance base and stem from an honest input; uniform input is decided under synchrony."""
import vlib, conslib
from vlib import Inconclusive
LEVEL = "model_checking"


def run(ck):
    conslib.design_check(ck, "C02")
    plan = [("uniform", 16), ("random", 24)] if ck.tier == "quick" else [("uniform", 150), ("random", 300), ("gst", 40)]
    seeds = [ck.seed] if ck.tier == "quick" else [ck.seed, ck.seed + 1000]
    conslib.run_layers(ck, plan, ["C02_"], seeds=seeds, conformance=(ck.tier != "quick"))
    a = ck.cov["antecedents"]
    if a.get("decisions", 0) < 20 or not a.get("byz_deliveries"):
        raise Inconclusive("vacuous run: %s" % a)
    ck.cov["distinct_nontrivial"] = a["runs"]
    ck.cov["rule"] = ("runs of real participants: 'uniform' = same input everywhere, no faulty member, delays below the synchrony bound (decision must equal the input); "
                      "'random' = forked/nested inputs with Byzantine members < 1/3 proposing arbitrary known chains; clauses NonEmpty, Base, HonestPrefix, UniformDecidesInput evaluated by TLC")


MANIFEST = dict(
    text=("Validity invariants are model-checked by TLC on the quorum-view abstraction GPBFTQuorum.tla (all schedules x all Byzantine strategies within small bounds) and the same "
          "clauses (non-empty, base, prefix of an honest input, uniform input decided under synchrony) are evaluated by TLC on recorded runs of real participants; attack schedules "
          "obtained as TLC counterexamples of mutant configurations are replayed on real participants."),
    note="Trusted: TLC, driver, FakeBackend. Exhaustive within the abstraction's bounds (3H+1B, rounds 0-1); real runs are sampled.",
    technique="TLC model checking of GPBFTQuorum.tla + TLA+ clause monitors on traces of real participants",
    design_ref="DESIGN.md section 5 and section 6 C02")

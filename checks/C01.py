"""C01 agreement."""
import vlib, conslib
from vlib import Inconclusive
LEVEL = "model_checking"


def run(ck):
    quick = ck.tier == "quick"
    # (D) exhaustive: quorum-view abstraction, all schedules x all Byzantine strategies; mutants must be refuted
    if quick:
        conslib.quorum_design(ck, ["MCQ_c01_r0"], ["MCQ_atbound_r0"])
    else:
        conslib.quorum_design(ck, ["MCQ_c01_r0", "MCQ_c01", "MCQ_skew"], ["MCQ_atbound", "MCQ_mutHalf"], timeout=2400)
    if not quick:
        conslib.refinement_check(ck, 160, seed=ck.seed)
        conslib.refinement_check(ck, 80, model="nest3", seed=ck.seed + 1)   # nested inputs: late QUALITY quorums, prefix candidates
    # (D) per-message model by simulation; the schedules TLC chose are replayed on the real participants below
    hists = conslib.permsg_design(ck, "c01", "fork", 120 if quick else 3000, maxround=2)
    # (T) seeded runs of real participants, clause C01_Agreement evaluated by TLC on every reported decision
    plan = [("random", 30)] if quick else [("random", 500), ("gst", 60)]
    seeds = [ck.seed] if quick else [ck.seed, ck.seed + 1000]
    conslib.run_layers(ck, plan, ["C01_"], seeds=seeds, conformance=not quick)
    # (R-conf) TLC-generated schedules, (R-attack) TLC counterexamples of mutant specs, on real participants
    if not ck.violations:
        conslib.replay_conformance(ck, ck.binary, "fork", hists[: (60 if quick else 1500)], ["C01_"], conformance=not quick)
    if not ck.violations:
        conslib.attack_replays(ck, ck.binary, ["C01_"], extra=([] if quick else conslib.fresh_attacks(ck, ck.seed + 100)))
    a = ck.cov["antecedents"]
    if not ck.violations and (a.get("decisions", 0) < 20 or not a.get("byz_deliveries")):
        raise Inconclusive("vacuous run: %s" % a)
    ck.cov["distinct_nontrivial"] = a["runs"] + ck.cov.get("replayed_tlc_schedules", 0) + ck.cov.get("attack_schedules_replayed", 0)
    ck.cov["rule"] = ("design: all reachable states of the quorum-view abstraction GPBFTQuorum.tla (exhaustive) + random walks of the per-message model MCGPBFT.tla; code: a case = one run "
                      "of real participants: seeded random runs with Byzantine members < 1/3 (adaptive forger, selective delivery, equivocation), replays of TLC-chosen schedules, and "
                      "replays of TLC counterexamples of mutant specs (attack schedules); clause C01_Agreement evaluated by TLC on every reported decision")
    ck.assumptions += ["sim/signing.FakeBackend stands for BLS (signatures unforgeable)", "the driver's scheduler and recorder (no oracle in Go)",
                       "soundness of the quorum-view abstraction (DESIGN.md 5.1): every received-set is a view"]


MANIFEST = dict(
    text=("Agreement is an invariant model-checked by TLC (a) exhaustively on the quorum-view abstraction GPBFTQuorum.tla: every schedule and every Byzantine strategy (any validly signable "
          "message given the honest votes cast so far, shown to anyone at any time or never) for 3 honest + 1 Byzantine participants over a fork (quick: round 0; thorough: rounds 0-1, equal and "
          "skewed power), with the configuration 'Byzantine power at 1/3' and weakened-quorum mutants required to be refuted; (b) by simulation on the implementation-shaped per-message model "
          "MCGPBFT.tla. Bound to the code three ways: the agreement clause is evaluated by TLC on every decision of recorded seeded runs of real participants (adaptive forger < 1/3); "
          "TLC-chosen schedules of the per-message model are replayed on real participants; and TLC counterexamples of mutant specs (weakened threshold, unchecked justification power/"
          "value/round, unjustified DECIDE ...) are replayed as attack schedules -- on a correct tree the real participants refuse the critical steps."),
    note="Trusted: TLC, the abstraction's soundness argument (DESIGN.md 5.1), the driver (scheduler/recorder), FakeBackend. Bounded: 3-4 members, <= 2 rounds at design level; real runs are sampled.",
    technique="TLC model checking of GPBFTQuorum.tla/MCGPBFT.tla + replay of TLC-generated schedules and attack counterexamples on real participants + TLA+ trace monitors",
    design_ref="DESIGN.md section 5 and section 6 C01")

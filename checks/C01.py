"""C01 agreement."""
import vlib, conslib
from vlib import Inconclusive
LEVEL = "model_checking"


def run(ck):
    conslib.design_check(ck, "C01")
    plan = [("random", 36)] if ck.tier == "quick" else [("random", 500), ("gst", 60)]
    seeds = [ck.seed] if ck.tier == "quick" else [ck.seed, ck.seed + 1000]
    conslib.run_layers(ck, plan, ["C01_"], seeds=seeds, conformance=(ck.tier != "quick"))
    conslib.attack_replays(ck, "C01")
    a = ck.cov["antecedents"]
    if a.get("decisions", 0) < 20 or not a.get("byz_deliveries"):
        raise Inconclusive("vacuous run: %s" % a)
    ck.cov["distinct_nontrivial"] = a["runs"]
    ck.cov["rule"] = ("design: all reachable states of the quorum-view abstraction; code: seeded runs of real participants with Byzantine members < 1/3 (adaptive forger, selective "
                      "delivery, equivocation) and replays of TLC-generated attack schedules; a case = one run; clause C01_Agreement evaluated by TLC on every reported decision")


MANIFEST = dict(
    text=("Agreement is an invariant model-checked by TLC on the quorum-view abstraction GPBFTQuorum.tla: every schedule and every Byzantine strategy (any validly signable message "
          "given the honest votes cast so far, selective delivery) for 3 honest + 1 Byzantine participants, three chains over a fork, rounds 0-1; mutant configurations (weakened "
          "quorum etc.) must yield counterexamples, which are replayed as attack schedules on real participants; the agreement clause is evaluated by TLC on all recorded runs."),
    note="Trusted: TLC, the abstraction's soundness argument (DESIGN.md 5.1, refinement checked by simulation), driver, FakeBackend. Bounded: small committees/rounds; real runs sampled.",
    technique="TLC model checking of GPBFTQuorum.tla + attack-schedule replay and trace monitors on real participants",
    design_ref="DESIGN.md section 5 and section 6 C01")

"""C19 test tooling is faithful: (a) sim.Simulation.Run reports an error for every unacceptable decision reported through the
host interface and for honest disagreement (spec/tooling/SimOracle.tla); (b) certchain derives committees by the node's
look-back rule (spec/tooling/CertChain.tla).  TLC enumerates the forged decisions / scenarios and the manifests, the driver
executes them on the real simulator, certchain and production gpbftInputs, TLC judges every recorded row."""
import os, re, json
from concurrent.futures import ThreadPoolExecutor
import vlib
from vlib import Inconclusive

LEVEL = "model_checking"
SPECDIR = os.path.join(vlib.SPEC, "tooling")


def cfg_with(name, **subst):
    s = open(os.path.join(SPECDIR, name)).read()
    for k, v in subst.items():
        s, n = re.subn(r"(?m)^(\s*%s\s*(?:=|<-)\s*).*$" % re.escape(k), lambda m: m.group(1) + str(v), s)
        if n != 1:
            raise Inconclusive("cfg %s has no constant %s" % (name, k))
    return s.encode()


def run_cfg(ck, tag, module, base, timeout, **subst):
    return vlib.tlc(SPECDIR, module, "X.cfg", workdir=os.path.join(ck.dir, "tlc-" + tag), timeout=timeout, workers=4,
                    extra_files={"X.cfg": cfg_with(base, **subst)})


def printed_cases(r):
    return [json.loads(json.loads(line)) for line in r.printed if line.startswith('"{')]


def design(ck):
    quick = ck.tier == "quick"
    to = 400 if quick else 1100
    jobs = [("design-sim", "MCSimOracle", "MCSimOracle.cfg", {} if quick else dict(Combos='"all"', Tables="TablesThorough")),
            ("design-disagree", "MCSimOracle", "MCSimDisagree.cfg", {}),
            ("design-certchain", "MCCertChain", "MCCertChain.cfg", {} if quick else dict(MaxE=7)),
            # non-vacuity: the two repaired defects as named deviations of the reference must break the design invariants
            ("mutant-zero_threshold", "MCSimOracle", "MCSimOracleMut.cfg", {}),
            ("mutant-index_plus_one", "MCCertChain", "MCCertChainMut.cfg", {})]
    with ThreadPoolExecutor(max_workers=3) as ex:
        futs = {tag: ex.submit(run_cfg, ck, tag, mod, base, to, **subst) for tag, mod, base, subst in jobs}
        res = {tag: f.result() for tag, f in futs.items()}
    for tag in ("design-sim", "design-disagree", "design-certchain"):
        ck.require_tlc_ok(tag, res[tag])
        ck.add_tlc(tag, res[tag], note="input space enumerated as states; design invariants of the reference checked on each")
    for tag, r in res.items():
        if tag.startswith("mutant-"):
            if r.error and not r.violated:
                raise Inconclusive("%s: TLC error %s\n%s" % (tag, r.error, r.out[-2000:]))
            if not r.violated:
                raise Inconclusive("design check is vacuous: deviation %s of the reference breaks no invariant" % tag)
            ck.cov["configs"].append(dict(config=tag, violated=r.violated, wall_s=round(r.wall, 1), note="required counterexample found"))
    ck.cov["exhaustive"] = True
    cases = printed_cases(res["design-sim"]) + printed_cases(res["design-disagree"])
    if len(cases) < 1000:
        raise Inconclusive("case generation produced only %d cases" % len(cases))
    return cases


def strong(signer_idx, powers):
    """coverage statistics only (which classes of rows the run contained); verdicts are TLC's"""
    tot = sum(powers)
    sc = [65535 * p // tot for p in powers]
    part = sum(sc[i] for i in signer_idx)
    whole = sum(sc)
    return part >= -((-2 * whole) // 3), 3 * sum(powers[i] for i in signer_idx) >= 2 * tot, part, -((-2 * whole) // 3)


def stats(events):
    st = dict(forged=0, forged_at0=0, forged_at1=0, fields_ok=0, weak_rejected_rows=0, one_below_threshold=0, at_threshold=0, two_of_four_equal=0,
              accepted=0, rounding_sensitive=0, wrong_field_rows=0, disagree=0, disagree_differ=0, disagree_at1=0,
              cc=0, cc_after_window=0, cc_error=0, cc_null_epoch_scenarios=0, certchain_dup_tipset_certs=0, certchain_certs=0)
    for e in events:
        k = e["ev"]
        if k == "Forged":
            st["forged"] += 1
            st["forged_at%d" % e["at"]] += 1
            ok = e["label"] == "ok" and e["phase"] == "DECIDE" and e["round"] == 0 and e["val"] == "good" and e["sig"]
            if not ok:
                st["wrong_field_rows"] += 1
                continue
            st["fields_ok"] += 1
            s, rw, part, thr = strong(e["sidx"], e["powers"])
            if s != rw:
                st["rounding_sensitive"] += 1
            if not s and not rw:
                st["weak_rejected_rows"] += 1
                if len(set(e["powers"])) == 1 and len(e["powers"]) == 4 and len(e["sidx"]) == 2:
                    st["two_of_four_equal"] += 1
            if part == thr:
                st["at_threshold"] += 1
            if part == thr - 1:
                st["one_below_threshold"] += 1
            if not e["err"]:
                st["accepted"] += 1
        elif k == "Disagree":
            st["disagree"] += 1
            st["disagree_differ"] += 1 if e["differ"] else 0
            st["disagree_at1"] += 1 if e["differ"] and e["at"] == 1 else 0
        elif k == "CC":
            st["cc"] += 1
            if e["cc"]["err"]:
                st["cc_error"] += 1
            elif e["i"] >= e["init"] + e["L"]:
                st["cc_after_window"] += 1
        elif k == "CCGen":
            st["certchain_certs"] += e["certs"]
            st["certchain_dup_tipset_certs"] += e["dupkeys"]
            if e["nullMod"] > 1:
                st["cc_null_epoch_scenarios"] += 1
    return st


def run(ck):
    cases = design(ck)
    # history of the oracle: for every table and instance one more forged decision that is reported AFTER the honest decisions of that
    # instance and re-uses the signers and aggregate bytes of an honest decision for a value nobody signed (sig = FALSE for the model:
    # the aggregate does not verify over this payload).  The oracle's verdict must not depend on what it verified earlier.
    seen = set()
    for c in list(cases):
        if c.get("kind") == "Forged" and c["label"] == "ok" and c["phase"] == "DECIDE" and c["round"] == 0 and c["val"] == "good":
            k = (tuple(c["tab"]), c["at"])
            if k not in seen:
                seen.add(k)
                r = dict(c)
                r.update(sig=False, replay=True, signers=[])
                cases.append(r)
    for c in cases:
        c.setdefault("replay", False)
    cfile = os.path.join(ck.dir, "simcases-%d.ndjson" % ck.seed)
    vlib.write_ndjson(cfile, cases)
    binary = vlib.build_driver("tooling", ck.dir)
    t_sim = os.path.join(ck.dir, "sim-%d.ndjson" % ck.seed)
    t_cc = os.path.join(ck.dir, "certchain-%d.ndjson" % ck.seed)
    rc, out = vlib.run_driver(binary, "TestSimOracle", env=dict(VERIF_OUT=t_sim, VERIF_CASES=cfile), timeout=1500)
    if rc != 0:
        raise Inconclusive("driver TestSimOracle failed:\n" + out[-3000:])
    rc, out = vlib.run_driver(binary, "TestCertChain", env=dict(VERIF_OUT=t_cc, VERIF_SEED=str(ck.seed),
                                                               VERIF_N="2" if ck.tier == "quick" else "8"), timeout=900)
    if rc != 0:
        raise Inconclusive("driver TestCertChain failed:\n" + out[-3000:])
    trace = os.path.join(ck.dir, "tooling-%d.ndjson" % ck.seed)
    with open(trace, "w") as fh:
        fh.write(open(t_sim).read())
        fh.write(open(t_cc).read())
        fh.write('{"ev":"End"}\n')         # clauses are evaluated one line late (see ToolingTrace.tla)
    r, events = vlib.validate_trace(ck, SPECDIR, "ToolingTrace", "ToolingTrace.cfg", trace, "seed%d" % ck.seed,
                                    timeout=600 if ck.tier == "quick" else 1500,
                                    count_traces=lambda ev: sum(1 for e in ev if e["ev"] in ("Forged", "Disagree", "CCGen")))
    st = stats(events)
    ck.cov["event_counts"] = st
    for e in events:
        if e["ev"] == "Forged" and e["err"] and "strong quorum" in e["errs"]:
            ck.sample(dict(rejected_forged_decision={k: e[k] for k in ("tab", "at", "powers", "sidx", "errs")}))
            break
    for e in events:
        if e["ev"] == "CC" and e["i"] >= e["init"] + e["L"] and not e["cc"]["err"]:
            ck.sample(dict(committee_row=e))
            break
    ck.sample(dict(first_events=events[:3]))
    for need in ("forged_at0", "forged_at1", "weak_rejected_rows", "one_below_threshold", "at_threshold", "two_of_four_equal", "accepted",
                 "wrong_field_rows", "disagree_differ", "disagree_at1", "cc_after_window", "cc_error", "cc_null_epoch_scenarios"):
        if not st[need]:
            raise Inconclusive("vacuous driver run: no row of class %s" % need)
    if st["certchain_dup_tipset_certs"]:
        ck.notes.append("observation (not a clause of C19): with null EC epochs certchain.Generate produced %d of %d certificates whose chain "
                        "repeats a tipset key under consecutive epochs (certchain.go getTipSetWithPowerTableByEpoch stamps the requested epoch)"
                        % (st["certchain_dup_tipset_certs"], st["certchain_certs"]))
    ck.cov["distinct_nontrivial"] = st["forged"] + st["disagree"] + st["cc"]
    ck.cov["rule"] = ("one row per sim.Run with a distinct forged decision (table x instance 0/1 x instance label x phase x round x value x signature x "
                      "every signer subset) or disagreement scenario, and per (manifest, instance) pair of certchain/node committees over "
                      "generated certificate chains; all distinct by construction")
    ck.assumptions += ["the adversary reports decisions through adversary.Host.ReceiveDecision (its own simulated host), as sim's public interface allows",
                       "signing.FakeBackend (any registered key can be signed for); certchain.Generate's own certificates are the shared history"]


MANIFEST = dict(
    text=("TLC enumerates forged decisions (4-9 power tables incl. 4 equal members and exact-threshold signer sets, instance 0/1, wrong instance/phase/round/"
          "emptiness/base/signature, all 16 signer subsets) and checks on SimOracle.tla that a passing run certifies acceptability; each is injected into a real "
          "sim.Simulation by a custom adversary through Host.ReceiveDecision and TLC checks that Run erred exactly when required, incl. honest disagreement forced "
          "by an equivocating strong-quorum adversary. TLC checks on CertChain.tla that the certchain rule equals the node rule for look-back 2-4, initial instance "
          "0-2, i<=8; certchain.GetCommittee and the production gpbftInputs.GetCommittee are evaluated over one EC backend (null epochs, table changing every "
          "tipset) and the generated certificates and compared row by row by TLC (ToolingTrace.tla). The two repaired defects are kept as named deviations that must break the design invariants."),
    note=("Trusted: TLC, the adversary/recorder in harness/drivers/tooling (no oracle in Go), signing.FakeBackend. Signer sets whose raw and scaled 2/3 verdicts differ "
          "are only conformance-checked (the statement does not fix the rounding). Not covered: errors raised on the very last network tick (Run checks errors at the top of its loop)."),
    technique="TLA+ reference predicates model-checked with TLC over the enumerated input space + TLC validation of recorded runs of the real simulator/certchain/node code",
    design_ref="DESIGN.md section 6 C19")

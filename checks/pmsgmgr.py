"""Manager stage of C13: the production partial message manager (pmsg/partial_msg.go) - the code that "completes a partially
validated message once the chain is known" - between the real stage 1 and the real stage 2.

  design   spec/msg/PartialManager.tla (per-instance LRU buffers, auxiliary index, chain exchange as the manager sees it,
           bounded output queue, pruning, chain broadcast de-duplication) model-checked by TLC on small alphabets
           (MCPartialManager*.cfg); named deviations (index without the instance, inclusive prune, no inference on the
           discovery path, stage 2 without its key check) and the manager-level "an emitted message always carries its
           announced key's chain" must each be REFUTED
  code     harness/drivers/pmsgmgr feeds a Start()ed production manager (real pubsub + chain exchange, goroutines running)
           one event at a time: scripted boundary histories, seeded random histories, and operation sequences generated
           by TLC -simulate from the model (spec -> code); one NDJSON line per input and per emitted message
  verdict  spec/msg/PartialManagerTrace.tla: TLC replays every line on the model and evaluates C13_Mgr* (on what the real
           code emitted and what the real stage 2 / one-shot validation said) and Conf_* (exact buffers, index, caches,
           emissions) in every state.
"""
import os, re, json
from concurrent.futures import ThreadPoolExecutor
import vlib
from vlib import Inconclusive

SPECDIR = os.path.join(vlib.SPEC, "msg")
BASE = "MCPartialManager.cfg"
# (tag, cfg, substitutions, note)
DESIGN_QUICK = [
    ("core", BASE, [], "2 instances x 2 senders x 2 chains, cap 1, 3 arrivals: arrive / notify / prune / read, all interleavings"),
    ("lookup", "MCPartialManagerLookup.cfg", [("MaxArr = 3", "MaxArr = 2")], "+ CompleteMessage and chain exchange admissions (1 instance, 2 arrivals)"),
    ("broadcast", "MCPartialManagerBroadcast.cfg", [], "+ BroadcastChain / ticks on a prefix family of chains (cap 2, 2 arrivals)"),
]
DESIGN_THOROUGH = [
    ("core", BASE, [('JKs = {"val"}', 'JKs = {"none", "val"}')], "as quick, two justification kinds"),
    ("core-arr4", BASE, [("MaxArr = 3", "MaxArr = 4")], "as quick, 4 arrivals"),
    ("core-cap2", BASE, [("Cap = 1", "Cap = 2"), ("MaxArr = 3", "MaxArr = 4"), ("Insts = {10, 11}", "Insts = {10}"), ("PruneAt = {10, 11}", "PruneAt = {11}")],
     "1 instance, cap 2, 4 arrivals"),
    ("core-3chains", BASE, [("ChainsC <- ChainsTwo", "ChainsC <- ChainsThree"), ("Senders = {1, 2}", "Senders = {1}")], "3 chains, 1 sender"),
    ("tamper", BASE, [("Tamper = FALSE", "Tamper = TRUE"), ("Insts = {10, 11}", "Insts = {10}"), ("PruneAt = {10, 11}", "PruneAt = {11}")],
     "wire messages whose announced key is not the key of the signed chain, handed over by a faulty caller"),
    ("lookup", "MCPartialManagerLookup.cfg", [], "+ CompleteMessage and chain exchange admissions (1 instance, 3 arrivals)"),
    ("broadcast", "MCPartialManagerBroadcast.cfg", [], "+ BroadcastChain / ticks on a prefix family of chains"),
    ("queue1", BASE, [("CapOut = 2", "CapOut = 1"), ("Cap = 1", "Cap = 2"), ("Insts = {10, 11}", "Insts = {10}"), ("PruneAt = {10, 11}", "PruneAt = {11}")],
     "output queue of 1 below the buffer size"),
]
# named deviations: TLC must refute the named invariant (non-vacuity)
MUTANTS = [
    ("mut-index", "MCPartialManagerMutIndex.cfg", "C13_MgrComplete", "completion looked up by key only, ignoring the instance"),
    ("mut-prune", "MCPartialManagerMutPrune.cfg", "C13_MgrComplete", "prune drops instance n itself"),
    ("mut-infer", "MCPartialManagerMutInfer.cfg", "C13_MgrRoundTrip", "no justification inference on the discovery path"),
    ("mut-stage2", "MCPartialManagerMutStage2.cfg", "C13_MgrNoForeignChain", "stage 2 without its key(chain) = announced key check"),
]
STRICT = ("strict", "MCPartialManagerStrict.cfg", "MgrEmitKeyStrict")
SIMS = [(1, 2, '{"val"}', False), (2, 2, '{"none"}', False), (2, 1, '{"bot"}', False), (1, 3, '{"val"}', True)]
FINDING = ("the manager's auxiliary index is not cleaned when the LRU buffer evicts a message (pmsg/partial_msg.go:180-182 add, :133-161 "
           "lookup by slot only): a slot (sender, instance, round, phase) that was evicted and is announced again under another key is "
           "completed with the FIRST key's chain - the manager emits a message whose chain key differs from its announced key; only "
           "FullyValidateMessage's own key check (gpbft/validator.go:139) keeps it from being admitted, and the message is consumed "
           "(its own chain's discovery no longer finds it)")


def _cfg(name, subs):
    c = open(os.path.join(SPECDIR, name)).read()
    for a, b in subs:
        if a not in c:
            raise Inconclusive("cfg template %s lacks %r" % (name, a))
        c = c.replace(a, b)
    return c.encode()


def _tlc(ck, tag, cfg, subs, timeout, workers, **kw):
    return vlib.tlc(SPECDIR, "MCPartialManager", "x.cfg", workdir=os.path.join(ck.dir, "tlc-mgr-" + tag), timeout=timeout, workers=workers,
                    heap="3g", extra_files={"x.cfg": _cfg(cfg, subs)}, **kw)


def design(ck):
    quick = ck.tier == "quick"
    tmo = 1500 if quick else 3000          # generous: the machine is shared; a timeout is exit 2, not a verdict
    jobs = [("design",) + r for r in (DESIGN_QUICK if quick else DESIGN_THOROUGH)]
    jobs += [("mutant", m[0], m[1], [], m[2], m[3]) for m in MUTANTS]
    jobs += [("strict", STRICT[0], STRICT[1], [], STRICT[2])]
    num = 10 if quick else 120
    for cap, capout, jks, tamper in SIMS:
        subs = [("Cap = 1", "Cap = %d" % cap), ("CapOut = 2", "CapOut = %d" % capout), ('JKs = {"val"}', "JKs = " + jks)]
        if tamper:
            subs.append(("Tamper = FALSE", "Tamper = TRUE"))
        jobs.append(("sim", "sim%d%d%s" % (cap, capout, "t" if tamper else ""), "MCPartialManagerSim.cfg", subs, (cap, capout)))

    def go(j):
        if j[0] == "sim":
            return _tlc(ck, j[1], j[2], j[3], 600, 1, simulate="num=%d" % num, depth=30, seed=ck.seed * 100 + j[4][0] * 10 + j[4][1])
        return _tlc(ck, j[1], j[2], j[3], tmo, 2 if j[0] == "design" else 1)
    with ThreadPoolExecutor(max_workers=4) as ex:
        res = list(ex.map(go, jobs))
    sims = []
    for j, r in zip(jobs, res):
        kind, tag = j[0], j[1]
        if kind == "design":
            ck.require_tlc_ok("manager " + tag, r)
            ck.add_tlc("design:manager-" + tag, r, note=j[4])
        elif kind == "mutant":
            if r.error or r.violated != j[4]:
                raise Inconclusive("non-vacuity: manager deviation %s (%s) was expected to be refuted on %s, got violated=%s error=%s\n%s"
                                   % (tag, j[5], j[4], r.violated, r.error, r.out[-1500:]))
            ck.cov["configs"].append(dict(config="mutant:manager-" + tag, refuted=r.violated, counterexample_states=len(r.trace),
                                          wall_s=round(r.wall, 1), note=j[5]))
        elif kind == "strict":
            if r.error or r.violated != j[4]:
                raise Inconclusive("the manager-level key clause %s was expected to be refuted on the as-coded model, got violated=%s error=%s\n%s"
                                   % (j[4], r.violated, r.error, r.out[-1500:]))
            ck.notes.append("design: 'every emitted message carries the chain of its announced key' (MgrEmitKeyStrict) is refuted by TLC on the "
                            "as-coded manager in %d states: %s" % (len(r.trace), FINDING))
        else:
            if r.error or r.violated:
                raise Inconclusive("simulation of the manager model failed: violated=%s error=%s\n%s" % (r.violated, r.error, r.out[-2000:]))
            sims.append((j[4], r))
    return sims


def model_histories(ck, sims):
    hs, seen = [], set()
    for (cap, capout), r in sims:
        for m in re.finditer(r'<<"VERIF_HIST", "(.*)">>', r.out):
            txt = m.group(1).replace('\\"', '"')
            if (cap, capout, txt) in seen:
                continue
            seen.add((cap, capout, txt))
            hs.append(dict(cap=cap, capOut=capout, ops=json.loads(txt)))
    if len(hs) < 10:
        raise Inconclusive("TLC simulation of the manager model produced only %d histories" % len(hs))
    p = os.path.join(ck.dir, "mgr-model-histories.json")
    json.dump(hs, open(p, "w"))
    return p, len(hs)


NEED = ["emits", "admitted", "roundTrips", "justified", "obligations", "evictions", "prunedHeld", "dupSlot", "lookupsFound", "published"]
NEED_SCRIPTED = NEED + ["foreignEmitted", "stage2Rejects", "queueDrops", "lookupNotifies", "notFed"]


def validate(ck, trace, name, need):
    count = lambda ev: sum(1 for e in ev if e["ev"] == "Reset")
    nviol = len(ck.violations)
    r, ev = vlib.validate_trace(ck, SPECDIR, "PartialManagerTrace", "PartialManagerTrace.cfg", trace, "mgr-" + name, count_traces=count, timeout=2400)
    if len(ck.violations) > nviol:
        return None, ev
    m = re.search(r'<<"VERIF_COV", "(.*)">>', r.out)
    if not m:
        raise Inconclusive("manager trace spec printed no coverage report (%s)" % name)
    cov = json.loads(m.group(1).replace('\\"', '"'))
    ck.cov.setdefault("manager_clause_antecedents", {})[name] = cov
    kinds = {}
    for e in ev:
        kinds[e["ev"]] = kinds.get(e["ev"], 0) + 1
    ck.cov.setdefault("manager_event_counts", {})[name] = kinds
    for k in need:
        if not cov.get(k):
            raise Inconclusive("vacuous manager run %s: antecedent %s never held (%s)" % (name, k, cov))
    return cov, ev


def manager_stage(ck):
    """Called at the end of C13.run()."""
    import threading
    box = {}

    def build():
        try:
            box["bin"] = vlib.build_driver("pmsgmgr", ck.dir)
        except BaseException as e:
            box["err"] = e
    t = threading.Thread(target=build)
    t.start()
    try:
        sims = design(ck)
    finally:
        t.join()
    if "err" in box:
        raise box["err"]
    binary = box["bin"]
    hp, nh = model_histories(ck, sims)
    seeds = [ck.seed] if ck.tier == "quick" else [ck.seed + 1000 * i for i in range(5)]
    n, steps = (40, 40) if ck.tier == "quick" else (200, 50)
    # spec -> code: the TLC-generated operation sequences; code -> spec: scripted boundary histories + seeded random histories
    jobs = [("model%d" % ck.seed, "TestMgrModel", dict(VERIF_IN=hp, VERIF_SEED=str(ck.seed)), ["emits", "admitted", "roundTrips", "evictions", "lookupsFound", "published"])]
    jobs += [("seed%d" % s, "TestMgrHistories", dict(VERIF_SEED=str(s), VERIF_N=str(n), VERIF_STEPS=str(steps), VERIF_SCRIPTED="1" if s == seeds[0] else "0"),
              NEED_SCRIPTED if s == seeds[0] else NEED) for s in seeds]

    def pipeline(job):
        name, test, env, need = job
        sub = vlib.Check(ck.pid, ck.tier, ck.seed, ck.level)      # private accumulator: two pipelines run concurrently
        sub.dir = ck.dir
        trace = os.path.join(ck.dir, "mgr-%s.ndjson" % name)
        rc, out = vlib.run_driver(binary, test, env=dict(env, VERIF_OUT=trace), timeout=1200)
        if rc != 0:
            raise Inconclusive("manager driver (%s) failed:\n%s" % (name, out[-3000:]))
        cov, ev = validate(sub, trace, name, need)
        return sub, cov, ev
    with ThreadPoolExecutor(max_workers=2) as ex:
        futs = [ex.submit(pipeline, j) for j in jobs]
        results, errs = [], []
        for f in futs:
            try:
                results.append(f.result())
            except Inconclusive as e:
                errs.append(e)
    nhist, foreign = 0, 0
    for sub, cov, ev in results:
        for k in ("states", "transitions", "traces_validated_against_impl", "evaluations"):
            ck.cov[k] += sub.cov[k]
        ck.cov["configs"] += sub.cov["configs"]
        for k in ("manager_clause_antecedents", "manager_event_counts"):
            ck.cov.setdefault(k, {}).update(sub.cov.get(k, {}))
        ck.violations += [v for v in sub.violations if v["signature"] not in [x["signature"] for x in ck.violations]]
        ck.known_hit += sub.known_hit
        nhist += sum(1 for e in ev if e["ev"] == "Reset")
        if cov:
            foreign += cov["foreignEmitted"]
    if ck.violations:
        return
    if errs:
        raise errs[0]
    ev = results[1][2]
    fe = [e for e in ev if e["ev"] == "Emit" and e["ck"] != e["ak"] and e["p1"] == "OK"]
    if fe:
        ck.sample(dict(stage="manager", observed="emitted with a chain whose key is not the announced key; rejected by stage 2",
                       emit={k: fe[0][k] for k in ("mid", "s", "ak", "ck", "fv", "ov", "eq")}))
    ok = [e for e in ev if e["ev"] == "Emit" and e["fv"] == "OK" and e["hasj"]]
    if ok:
        ck.sample(dict(stage="manager", emit={k: ok[0][k] for k in ("mid", "s", "ak", "ck", "jc", "fv", "ov", "eq")}))
    if foreign:
        ck.notes.append("code: on %d recorded emissions the real manager completed a message with a chain whose key differs from the announced key "
                        "(every one rejected by the real FullyValidateMessage, so C13 holds end to end): %s" % (foreign, FINDING))
    ck.cov["distinct_nontrivial"] += nhist
    ck.cov["rule"] += ("; manager stage: + %d histories of the production PartialMessageManager (capacities 1..16, output queue 1..16; scripted boundary "
                       "cases: same key in two instances, two keys, same bytes under two keys, discovery before/after arrival and lookup, buffer overflow, "
                       "evicted slot re-announced under another key, prune at n-1/n/n+1 between arrival and discovery, duplicates, output queue overflow, "
                       "broadcast de-duplication and ticks; seeded random; %d generated by TLC -simulate from the model), every input and every emitted "
                       "message one event checked by TLC against C13_MgrNoForeignChain/SameAcceptance/RoundTrip/Complete and the exact model state" % (nhist, nh))
    ck.assumptions += ["manager stage: events are fed one at a time and the goroutines are idle before the next one (no concurrent interleavings of the "
                       "run loop's input channels; their drop-when-full policy is not exercised)",
                       "manager stage: the chain exchange is the production object with capacities far above the number of chains used (its LRU "
                       "behaviour is C18's subject); its pubsub validator ignores own publications (no loop-back into the discovered cache)",
                       "manager stage: ECChain.Key() is injective on the generated chains (keys are mapped back through a registry of generated chains)"]

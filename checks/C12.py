"""C12 no self-equivocation on the wire across requests, rebroadcasts and restarts.

design  : TLC exhaustively checks the three clauses on spec/host/Broadcast.tla (MCBroadcast*.cfg); two named
          deviations of the spec (publish before log, filter not re-armed) must yield counterexamples, which are
          turned into operation histories and executed on the real runner.
binding : harness/drivers/broadcast runs the real equivocationFilter (whole state graph for small alphabets + random)
          and a production gpbftRunner over a real WAL directory (random + TLC-generated + counterexample histories);
          spec/host/BroadcastTrace.tla evaluates the clauses on what left the node and conformance with the model."""
import os, re, json, random
import vlib
from vlib import Inconclusive

LEVEL = "model_checking"
SPECDIR = os.path.join(vlib.SPEC, "host")
MV = {"r0": 0, "r1": 1, "P": 3, "C": 4}   # model values of the symmetric exhaustive configs -> concrete rounds / phases


def _hists(out):
    hs = []
    for m in re.finditer(r'<<"VERIF_HIST", "(.*)">>', out):
        try:
            hs.append(json.loads(m.group(1).replace('\\"', '"')))
        except ValueError:
            pass
    return hs


def _m(m):
    return dict(inst=int(m["inst"]), sender=int(m["sender"]), round=MV.get(m["round"], m["round"]), phase=MV.get(m["phase"], m["phase"]), sig=m["sig"])


def hist_to_ops(h, rng, foreign=False):
    """micro-step history of the model -> calls the driver can make on the real runner.  (Loose on purpose: the
    recorded execution is validated on its own, whatever the code does with these inputs.)"""
    ops, i = [], 0
    while i < len(h):
        e = h[i]
        nxt = [x["op"] for x in h[i + 1:i + 3]]
        if e["op"] == "F":
            o = dict(op="B", abort="none", **_m(e["m"]))
            if nxt[:1] == ["X"]:
                pass                      # died before the append: the request leaves no trace; keep it as a plain request
            elif nxt[:2] == ["A", "X"]:
                o["abort"] = "encode"     # died between append and publish
            elif nxt[:2] == ["A"] and len(h) == i + 2:
                o["abort"] = "notopic"
            ops.append(o)
            if nxt[:2] == ["A", "X"] and rng.random() < 0.4:
                ops.append(dict(op="X", tear=rng.randint(1, 40), ec=True))
                i += 3
                continue
        elif e["op"] == "X":
            ops.append(dict(op="X", tear=0, ec=rng.random() < 0.5))
        elif e["op"] == "R":
            ops.append(dict(op="R", inst=int(e["inst"]), round=MV.get(e["round"], e["round"]), phase=MV.get(e["phase"], e["phase"])))
        elif e["op"] == "C":
            if int(e["c"]) > 1:
                ops.append(dict(op="P", k=int(e["c"]) - 1))
        elif e["op"] == "E":
            ops.append(dict(op="E", peer=("!" if foreign else "") + e["peer"]["id"], **_m(e["m"])))
        i += 1
    return ops


def design(ck):
    quick = ck.tier == "quick"
    cfgs = ["MCBroadcast.cfg"] if quick else ["MCBroadcast.cfg", "MCBroadcast4.cfg", "MCBroadcast5narrow.cfg"]
    for cfg in cfgs:
        r = vlib.tlc(SPECDIR, "MCBroadcast", cfg, workdir=os.path.join(ck.dir, "tlc-design-" + cfg[:-4]), timeout=900 if quick else 3000, workers=8)
        ck.require_tlc_ok(cfg, r)
        ck.add_tlc("design:" + cfg, r, note="every interleaving of requests (filter/append/publish as separate steps), death+restart at any point, "
                   "rebroadcasts, certificates (purge+trim), echoes; restarts and environment steps unbounded")
    ck.cov["exhaustive"] = True


def deviations(ck):
    quick = ck.tier == "quick"
    attacks = []
    devs = [("MCmutPublishFirst.cfg", "LogBeforePublish = FALSE"), ("MCmutNoRearm.cfg", "RearmOnStart = FALSE")]
    if not quick:
        devs.append(("MCassumeForeign.cfg", "Foreign = TRUE (another node signs with our identity: the property's assumption is necessary)"))
    for cfg, what in devs:
        r = vlib.tlc(SPECDIR, "MCBroadcast", cfg, workdir=os.path.join(ck.dir, "tlc-dev-" + cfg[:-4]), timeout=600, workers=4)
        if r.error or not r.violated:
            raise Inconclusive("non-vacuity: named deviation %s (%s) produced no counterexample (violated=%s error=%s)\n%s"
                               % (cfg, what, r.violated, r.error, r.out[-1500:]))
        hs = _hists(r.out)
        if not hs:
            raise Inconclusive("named deviation %s: counterexample history not printed" % cfg)
        ck.cov["configs"].append(dict(config="deviation:" + cfg, distinct=r.distinct, generated=r.generated, depth=r.depth, wall_s=round(r.wall, 1),
                                      finished=False, exhaustive=False, note="%s -> %s violated, %d counterexample histories replayed on the real runner"
                                      % (what, r.violated, len(hs))))
        seen = set()
        for h in hs:
            key = json.dumps(h, sort_keys=True)
            if key not in seen:
                seen.add(key)
                attacks.append((h, cfg == "MCassumeForeign.cfg"))
    return attacks


def generate(ck, n):
    """TLC -simulate on the design spec: behaviours (incl. the rare death points) as operation histories."""
    r = vlib.tlc(SPECDIR, "MCBroadcast", "MCBroadcastSim.cfg", workdir=os.path.join(ck.dir, "tlc-sim"), timeout=300, simulate="num=%d" % n,
                 depth=27, seed=ck.seed, workers=1)
    if r.error or r.violated:
        raise Inconclusive("generator: TLC simulation failed: %s %s\n%s" % (r.error, r.violated, r.out[-2000:]))
    hs, seen = [], set()
    for h in _hists(r.out):
        key = json.dumps(h[:-2], sort_keys=True)   # one history per simulated behaviour (TLC prints every candidate successor)
        if key not in seen:
            seen.add(key)
            hs.append(h)
    if len(hs) < n // 2:
        raise Inconclusive("generator produced only %d histories" % len(hs))
    ck.cov["configs"].append(dict(config="generator:MCBroadcastSim.cfg", distinct=0, generated=r.generated, depth=26, wall_s=round(r.wall, 1), finished=True,
                                  exhaustive=False, note="%d model behaviours of 26 micro-steps handed to the driver" % len(hs)))
    return hs


def validate(ck, trace, name):
    return vlib.validate_trace(ck, SPECDIR, "BroadcastTrace", "BroadcastTrace.cfg", trace, name, timeout=1500,
                               count_traces=lambda ev: sum(1 for e in ev if e["ev"] == "Reset"))


def run(ck):
    from concurrent.futures import ThreadPoolExecutor
    quick = ck.tier == "quick"
    rng = random.Random(ck.seed)
    if os.environ.get("VERIF_C12_PARTS") == "f3":     # development / mutation demos: the end-to-end part alone
        ck.cov["facts"] = f3_job(ck, [ck.seed, ck.seed + 7], 40)
        ck.cov["distinct_nontrivial"] = ck.cov["traces_validated_against_impl"]
        ck.cov["rule"] = "end-to-end part only (VERIF_C12_PARTS=f3)"
        return
    pool = ThreadPoolExecutor(max_workers=6)
    f_design = pool.submit(design, ck)            # joined at the end: independent of everything below
    f_dev = pool.submit(deviations, ck)
    f_gen = pool.submit(generate, ck, 60 if quick else 400)
    f_build = pool.submit(vlib.build_driver, "broadcast", ck.dir)
    f_f3 = None if quick else pool.submit(f3_job, ck, [ck.seed, ck.seed + 7], 40)
    try:
        attacks, model_h, binary = f_dev.result(), f_gen.result(), f_build.result()
    except BaseException:
        f_design.cancel()
        if f_f3:
            f_f3.cancel()
        pool.shutdown(wait=True)
        raise
    opsfile = os.path.join(ck.dir, "ops-%d.ndjson" % ck.seed)
    lines = [hist_to_ops(h, rng, foreign) for h, foreign in attacks] + [hist_to_ops(h, rng) for h in model_h]
    lines = [l for l in lines if l]
    vlib.write_ndjson(opsfile, lines)
    seeds = [ck.seed] if quick else [ck.seed + 1000 * i for i in range(4)]
    kinds, facts = {}, dict(cut=0, tear=0, restart=0, refused=0, rebroadcast_pub=0, purge_removed=0, conflicts_after_restart=0, edges=0, fstates=0)
    def filter_job(s):
        ftrace = os.path.join(ck.dir, "filter-%d.ndjson" % s)
        big = (not quick) and s == seeds[0]
        rc, out = vlib.run_driver(binary, "TestFilterGraph", env=dict(VERIF_OUT=ftrace, VERIF_SEED=str(s), VERIF_DFS_SLOTS="3" if big else "2",
                                  VERIF_DFS_INSTS="2" if quick or big else "3", VERIF_FN="60" if quick else "300"), timeout=900)
        if rc != 0:
            raise Inconclusive("filter driver failed:\n" + out[-3000:])
        return validate(ck, ftrace, "filter-seed%d" % s)[1]

    def runner_job(s):
        rtrace = os.path.join(ck.dir, "runner-%d.ndjson" % s)
        rc, out = vlib.run_driver(binary, "TestRunnerHistories", env=dict(VERIF_OUT=rtrace, VERIF_SEED=str(s), VERIF_N="160" if quick else "900",
                                  VERIF_STEPS="12" if quick else "16", VERIF_OPS=opsfile if s == seeds[0] else "",
                                  VERIF_ZSTD="0" if quick or s != seeds[-1] else "1"), timeout=1500)
        if rc != 0:
            raise Inconclusive("runner driver failed:\n" + out[-3000:])
        return validate(ck, rtrace, "runner-seed%d" % s)[1]

    def settle(futs):
        """wait for all; a recorded violation wins over drift elsewhere; else re-raise the first Inconclusive"""
        res, first = [], None
        for f in futs:
            try:
                res.append(f.result())
            except Inconclusive as e:
                first = first or e
                res.append(None)
        if first and not ck.violations:
            raise first
        return res

    for s in seeds:
        fev, rev = settle([pool.submit(filter_job, s), pool.submit(runner_job, s)])
        if ck.violations:
            break
        for e in fev:
            if e["ev"] == "Info":
                if not e["closed"]:
                    raise Inconclusive("filter graph enumeration hit its edge cap before closure")
                facts["edges"] += e["edges"]
                facts["fstates"] += e["states"]
        ck.sample(dict(trace="runner-seed%d" % s, first_events=[{k: v for k, v in e.items() if k in ("ev", "m", "abort", "enc", "wire", "err", "tear", "k", "inst", "round", "phase")}
                                                                  for e in rev[:8]]))
        since_restart = False
        for e in rev + fev:
            kinds[e["ev"]] = kinds.get(e["ev"], 0) + 1
        for e in rev:
            if e["ev"] == "Reset":
                since_restart = False
            if e["ev"] == "Restart":
                facts["restart"] += 1
                facts["tear"] += 1 if e["tear"] else 0
                since_restart = True
            if e["ev"] == "Broadcast":
                if any(x["aborted"] for x in e["enc"]):
                    facts["cut"] += 1
                if e["abort"] == "none" and not e["enc"]:
                    facts["refused"] += 1
                    if since_restart:
                        facts["conflicts_after_restart"] += 1
            if e["ev"] == "Rebroadcast" and e["enc"]:
                facts["rebroadcast_pub"] += 1
    rest = settle([f_design] + ([f_f3] if f_f3 else []))
    pool.shutdown(wait=True)
    if f_f3 and rest[1]:
        facts.update(rest[1])
    if ck.violations:
        return
    ck.cov["event_counts"] = kinds
    ck.cov["facts"] = facts
    for need, what in (("cut", "call cut between WAL append and publish"), ("tear", "restart after a torn WAL record"), ("restart", "restart"),
                       ("refused", "request refused by the filter"), ("conflicts_after_restart", "request refused by a filter re-armed from the WAL"),
                       ("rebroadcast_pub", "rebroadcast that published"), ("edges", "filter graph edge")):
        if not facts[need]:
            raise Inconclusive("vacuous driver run: no %s" % what)
    if not kinds.get("Purge") or not kinds.get("Receive"):
        raise Inconclusive("vacuous driver run: no Purge / Receive event")
    ck.cov["distinct_nontrivial"] = ck.cov["traces_validated_against_impl"] + facts["edges"]
    ck.cov["rule"] = ("histories of the real runner (random, TLC-generated, counterexamples of the named deviations) + random filter histories, each validated event by "
                      "event by TLC, plus every edge of the real filter's state graph over the small alphabet (depth-first, states identified by the accessor dump)")
    ck.assumptions += ["no storage errors (a failed WAL append is logged and the message is still published: host.go:472-475)",
                       "no other node signs with the same identity (with one, the filter lets a second signature through when the local peer id is the smallest: "
                       "MCassumeForeign.cfg shows the counterexample)",
                       "fsync makes the appended record durable; a torn record is a byte prefix",
                       "nothing is requested for an instance below a WAL purge bound already applied (the participant never returns below a stored certificate)",
                       "the publish point is the encoder call immediately preceding topic.Publish, cross-checked with a subscriber of the node's own topic"]


def f3_job(ck, seeds, cycles):
    """thorough tier: the public path Participant -> MessagesToSign -> F3.Broadcast -> filter -> WAL -> pubsub on a real F3 node, observed by a
    second mocknet host; restarts with a moved EC head, cut calls, stale and re-signed requests (harness/drivers/broadcastf3)."""
    binary = vlib.build_driver("broadcastf3", os.path.join(ck.dir, "f3"))
    facts = dict(f3_requests=0, f3_refused=0, f3_wire=0, f3_cut=0, f3_starts=0, f3_refused_fresh_after_restart=0)
    for s in seeds:
        trace = os.path.join(ck.dir, "f3-%d.ndjson" % s)
        rc, out = vlib.run_driver(binary, "TestF3Histories", env=dict(VERIF_OUT=trace, VERIF_SEED=str(s), VERIF_CYCLES=str(cycles), GOLOG_LOG_LEVEL="error"), timeout=900)
        if rc != 0:
            raise Inconclusive("end-to-end driver failed:\n" + out[-3000:])
        _, ev = validate(ck, trace, "f3-seed%d" % s)
        enc = set(e["m"]["sig"] for e in ev if e["ev"] == "F3Enc")
        lifetime_first = False
        for e in ev:
            if e["ev"] == "F3Start":
                facts["f3_starts"] += 1
                lifetime_first = e["cycle"] > 0
            elif e["ev"] == "F3Request":
                facts["f3_requests"] += 1
                if e["m"]["sig"] not in enc:
                    facts["f3_refused"] += 1
                    if e["kind"] == "fresh" and lifetime_first:
                        facts["f3_refused_fresh_after_restart"] += 1
                if e["kind"] == "fresh":
                    lifetime_first = False
            elif e["ev"] == "F3Wire":
                facts["f3_wire"] += 1
            elif e["ev"] == "F3Enc" and e["aborted"]:
                facts["f3_cut"] += 1
        ck.sample(dict(trace="f3-seed%d" % s, first_events=[{k: v for k, v in e.items() if k in ("ev", "m", "kind", "cut", "aborted", "cycle")} for e in ev[:10]]))
    for need, what in (("f3_wire", "message observed at the second host"), ("f3_cut", "call cut between append and publish"),
                       ("f3_refused_fresh_after_restart", "vote of a restarted participant (moved EC head) refused by the re-armed filter")):
        if not facts[need]:
            raise Inconclusive("vacuous end-to-end run: no %s" % what)
    return facts


def replay(ck, obj):
    rp = obj.get("replay") or {}
    trace = rp.get("trace")
    if not trace or not os.path.exists(trace):
        raise Inconclusive("replay: recorded trace not found: %s" % trace)
    validate(ck, trace, "replay")


MANIFEST = dict(
    text=("TLC exhaustively checks the three C12 clauses (one signature per (instance, sender, round, phase) on the wire; no wire message for an instance older "
          "than one already on the wire; logged before published) on Broadcast.tla: BroadcastMessage split into filter / WAL append / publish with process death and "
          "restart between any two, rebroadcasts through the filter, certificate-driven WAL purge and store trim, echoes of own messages; instances {1,2,3} x rounds "
          "{0,1} x phases {PREPARE, COMMIT} x signatures {a,b}, unbounded restarts, <= 3 requests (quick) / 4 and 5 (thorough). Two named deviations of the spec "
          "(publish before log; filter not re-armed from the WAL) must give counterexamples, which - with TLC -simulate behaviours and seeded random histories - are "
          "executed on a production gpbftRunner (built by newRunner over a real WAL directory; the encoder field is interposed to observe/cut the moment before "
          "topic.Publish; a restart is a second runner over the same directory) and on the real equivocationFilter (whole state graph over a small alphabet). TLC "
          "evaluates the clauses on what left the node (BroadcastTrace.tla) and checks that the code behaves like the model."),
    note=("Trusted: TLC, the NDJSON recorder in harness/drivers/broadcast (no oracle in Go), the two accessors in harness/inpkg (constructors/dumps, encoder wrapper). "
          "Bounded: model constants above; real histories are sampled (seeded). Not covered at runner level: the event loops of Start (certificate-driven purge is "
          "modelled and driven through wal.Purge directly), storage errors, identity sharing. Filter strictness beyond the property (e.g. a slot key ignoring the round) "
          "is reported as drift (exit 2), not as a violation."),
    technique="TLA+ spec model-checked with TLC + trace validation of the real runner/filter against the spec + spec-generated histories",
    design_ref="DESIGN.md section 6 C12")

"""Power-store stage of C15: the ec.Backend the production node really hands to consensus (internal/powerstore, f3.go:293).
C15 says each proposal tipset carries "the CID of EC's power table at that tipset" and the committee is "the table ... at the
head finalized look-back instances earlier"; in production both lookups go through powerstore.Store.GetPowerTable, which
answers from EC while EC has the state and otherwise rebuilds the table from the certificate store's base table plus
per-epoch deltas recorded by a background loop.  The clause: whatever it returns is EC's table at that tipset, or an error.

design  : TLC checks spec/host/PowerStore.tla on MCPowerStore (every interleaving of EC growth with null epochs and
          changing tables, F3 finalizing any admissible head, loop iterations with an EC lookup failing at any epoch and
          deletes failing, restarts): PS_Exact, PS_MemConsistent, PS_Serves, PS_DeltasAreFacts.  Named deviations
          (base table of the wrong instance, resume without applying the recorded deltas, stale previous table, delta
          stored one epoch early, null epochs not recorded) must each be refuted.
binding : harness/drivers/powerstore runs the production Store with its real background loop on a mock clock (one
          iteration per step, observed when the goroutine is parked again), a real certificate store fed with real
          certificates, a model EC (null epochs, four tables incl. membership and order changes) that refuses lookups on
          demand and a datastore whose deletes fail on demand; spec/host/PowerStoreTrace.tla judges every line.
clauses : C15_PowerStoreExact (judged on the logged answer and the logged chain only) -> VIOLATION;
          Conf_* (loop memory, datastore keys, fallback answers incl. which lookups are refused) -> drift (exit 2)."""
import os, re, json
from concurrent.futures import ThreadPoolExecutor
import vlib
from vlib import Inconclusive

SPECDIR = os.path.join(vlib.SPEC, "host")
MUTANTS = ["base_instance_off", "mostrecent_noapply", "stale_lp", "diff_key_off", "null_skip"]
# (finality, bootstrap, initial instance, look-back)
CONFIGS_QUICK = [(2, 2, 0, 1), (4, 6, 3, 2)]
CONFIGS_THOROUGH = [(2, 2, 0, 1), (4, 6, 3, 2), (3, 3, 0, 3), (6, 8, 1, 2), (1, 2, 0, 1)]
NEED = dict(fallbackServed=50, fallbackApplied=10, fallbackRefused=50, engagedTicks=20, wipes=2, partialWipes=1, failedLookups=1,
            restartsEngaged=1, resumedFromDeltas=1, nullDeltas=5, baseMoved=3)
# the quick tier runs few histories: the rare regimes are reported, only the common ones are required
NEED_QUICK = dict(fallbackServed=30, fallbackApplied=5, fallbackRefused=30, engagedTicks=10, wipes=1, nullDeltas=2, baseMoved=1)


def _cfg(name, subs):
    c = open(os.path.join(SPECDIR, name)).read()
    for a, b in subs:
        if a not in c:
            raise Inconclusive("cfg template %s lacks %r" % (name, a))
        c = c.replace(a, b)
    return c.encode()


def powerstore_stage(ck):
    quick = ck.tier == "quick"
    d = ck.dir
    pool = ThreadPoolExecutor(max_workers=4)
    # ---- design (runs while the driver is built and run)
    dsubs = [("MaxEpoch = 9", "MaxEpoch = 7")] if quick else []
    designs = {"powerstore:design": pool.submit(vlib.tlc, SPECDIR, "MCPowerStore", "x.cfg", workdir=os.path.join(d, "tlc-ps-design"), timeout=2400,
                                                 workers=4 if quick else 8, extra_files={"x.cfg": _cfg("MCPowerStore.cfg", dsubs)})}
    if not quick:
        designs["powerstore:design-nullboot"] = pool.submit(
            vlib.tlc, SPECDIR, "MCPowerStore", "x.cfg", workdir=os.path.join(d, "tlc-ps-design2"), timeout=2400, workers=4,
            extra_files={"x.cfg": _cfg("MCPowerStore.cfg", [("Chain0 <- Chain0Plain", "Chain0 <- Chain0Null"), ("Bootstrap = 2", "Bootstrap = 3"),
                                                            ("Lookback = 1", "Lookback = 2"), ("MaxEpoch = 9", "MaxEpoch = 8"), ("KeepAll = FALSE", "KeepAll = TRUE")])})
    muts = {m: pool.submit(vlib.tlc, SPECDIR, "MCPowerStore", "MCPowerStore-%s.cfg" % m, workdir=os.path.join(d, "tlc-ps-mut-" + m), timeout=1200, workers=1)
            for m in MUTANTS}
    # ---- code
    binary = vlib.build_driver("powerstore", d)
    seeds = [ck.seed] if quick else [ck.seed, ck.seed + 1000, ck.seed + 2000]
    n, steps = (6, 40) if quick else (25, 60)
    tot = {k: 0 for k in NEED}
    nhist = 0

    def one(job):
        (fin, boot, init, lb), s = job
        name = "ps-f%db%di%dl%d-seed%d" % (fin, boot, init, lb, s)
        trace = os.path.join(d, name + ".ndjson")
        rc, out = vlib.run_driver(binary, "TestPowerStoreHistories", timeout=1200,
                                  env=dict(VERIF_OUT=trace, VERIF_SEED=str(s), VERIF_N=str(n), VERIF_STEPS=str(steps), VERIF_FIN=str(fin),
                                           VERIF_BOOT=str(boot), VERIF_INIT=str(init), VERIF_LB=str(lb)))
        if rc != 0:
            raise Inconclusive("power store driver (%s) failed:\n%s" % (name, out[-3000:]))
        sub = vlib.Check(ck.pid, ck.tier, ck.seed, ck.level)
        sub.dir = d
        cfg = _cfg("PowerStoreTrace.cfg", [("Finality = 2", "Finality = %d" % fin), ("Bootstrap = 2", "Bootstrap = %d" % boot),
                                           ("Initial = 0", "Initial = %d" % init), ("Lookback = 1", "Lookback = %d" % lb)])
        r, ev = vlib.validate_trace(sub, SPECDIR, "PowerStoreTrace", "x.cfg", trace, name, timeout=2400, extra_files={"x.cfg": cfg},
                                    count_traces=lambda ev: sum(1 for e in ev if e["ev"] == "Reset"))
        cov = None
        if not sub.violations:
            m = re.search(r'<<"VERIF_COV", "(.*)">>', r.out)
            if not m:
                raise Inconclusive("power store trace spec printed no coverage report (%s)" % name)
            cov = json.loads(m.group(1).replace('\\"', '"'))
        return sub, cov, ev

    jobs = [(c, s) for s in seeds for c in (CONFIGS_QUICK if quick else CONFIGS_THOROUGH)]
    with ThreadPoolExecutor(max_workers=3) as ex:
        futs = [ex.submit(one, j) for j in jobs]
        results, errs = [], []
        for f in futs:
            try:
                results.append(f.result())
            except Inconclusive as e:
                errs.append(e)
    for sub, cov, ev in results:
        for k in ("states", "transitions", "traces_validated_against_impl", "evaluations"):
            ck.cov[k] += sub.cov[k]
        ck.cov["configs"] += sub.cov["configs"]
        ck.violations += [v for v in sub.violations if v["signature"] not in [x["signature"] for x in ck.violations]]
        ck.known_hit += sub.known_hit
        nhist += sum(1 for e in ev if e["ev"] == "Reset")
        if cov:
            for k in tot:
                tot[k] += cov.get(k, 0)
    if ck.violations:
        pool.shutdown(wait=True, cancel_futures=True)
        return
    if errs:
        pool.shutdown(wait=True, cancel_futures=True)
        raise errs[0]
    ck.cov["powerstore_stage"] = tot
    for k, v in (NEED_QUICK if quick else NEED).items():
        if tot[k] < v:
            raise Inconclusive("vacuous power-store run: %s = %d (< %d)" % (k, tot[k], v))
    ev = results[0][2]
    for e in ev:
        if e["ev"] == "Get" and not e["ecOK"] and e["res"] > 0 and e["e"] > 3:
            ck.sample(dict(stage="powerstore", observed="EC refused, table rebuilt from the certificate store base + recorded deltas", get=e))
            break
    for e in ev:
        if e["ev"] == "Tick" and e["lp"] > 0 and len(e["keys"]) > 3:
            ck.sample(dict(stage="powerstore", loop_iteration=e))
            break
    # ---- design results
    for tag, f in designs.items():
        r = f.result()
        ck.require_tlc_ok(tag, r)
        ck.add_tlc(tag, r, note="PowerStore.tla: every interleaving of EC growth (null epochs, 2 tables), F3 certificates, loop iterations (failing "
                                "lookup at any epoch, failing deletes), one restart, within the epoch bound; PS_Exact, PS_MemConsistent, PS_Serves, PS_DeltasAreFacts")
    for mname, f in muts.items():
        r = f.result()
        if r.error and not r.violated:
            raise Inconclusive("power-store stage: deviation %s: TLC error %s\n%s" % (mname, r.error, r.out[-1500:]))
        if not r.violated:
            raise Inconclusive("power-store design check is vacuous: deviation %s of PowerStore.tla breaks no invariant" % mname)
        ck.cov["configs"].append(dict(config="powerstore:mutant:" + mname, violated=r.violated, distinct=r.distinct, wall_s=round(r.wall, 1),
                                      note="required counterexample found"))
    pool.shutdown(wait=True)
    ck.cov["distinct_nontrivial"] += nhist
    ck.cov["rule"] += ("; power-store stage: + %d seeded histories of the production powerstore.Store (real loop on a mock clock, real certificate "
                       "store, model EC with null epochs / evolving tables / refused lookups, failing deletes, restarts), every step one event "
                       "judged by TLC against PowerStore.tla" % nhist)
    ck.notes.append("design: recorded deltas are facts about the final chain (PS_DeltasAreFacts), so deltas that survive a restart, a failed delete "
                    "or a base that moved are harmless - the deviation 'never wipe' breaks no invariant; the wipe only bounds space")
    ck.assumptions += ["power-store stage: EC does not reorganise at or below head - Finality (the loop records only such epochs), EC's "
                       "GetTipset/GetTipsetByEpoch/GetParent keep answering when power-table lookups fail, and the certificate store's tables are "
                       "the committees C15/C09 establish (initial table in the look-back window, else EC's table at the head finalized look-back instances earlier)",
                       "power-store stage: one loop iteration at a time, observed when the loop goroutine is parked in its select; Get calls are not "
                       "concurrent with an iteration"]
